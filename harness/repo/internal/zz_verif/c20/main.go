//go:build verif

// c20: nothing a backend says can crash Olla or poison its state.
//
//	parse    — every shipped profile's ParseModelsResponse on structurally mutated listings
//	discover — the real HTTP discovery client + ModelDiscoveryService + unified registry against a
//	           loopback backend whose listing is scripted per round (good / garbage / truncated / empty /
//	           nameless / duplicate / oversized / error status); registry read back after every round
//	metrics  — metrics.Extractor.ExtractFromChunk on mutated response tails; util.SafeInt32/SafeFloat32 table
//	xlate    — the Anthropic response / stream translators on mutated OpenAI bytes
//
// Every call runs under recover with a 3 s watchdog; a panic or a hang is recorded, never fatal.
package main

import (
	"bytes"
	"context"
	"encoding/hex"
	"encoding/json"
	"fmt"
	"math"
	"net/http"
	"net/http/httptest"
	"sort"
	"strings"
	"sync"
	"sync/atomic"
	"time"

	"github.com/thushan/olla/internal/adapter/discovery"
	"github.com/thushan/olla/internal/adapter/metrics"
	"github.com/thushan/olla/internal/adapter/registry"
	"github.com/thushan/olla/internal/adapter/registry/profile"
	"github.com/thushan/olla/internal/adapter/translator/anthropic"
	"github.com/thushan/olla/internal/config"
	"github.com/thushan/olla/internal/core/domain"
	"github.com/thushan/olla/internal/util"
	"github.com/thushan/olla/internal/zz_verif/stack"
	"github.com/thushan/olla/internal/zz_verif/vlib"
)

type guard struct {
	Panic   string `json:"panic,omitempty"`
	Timeout bool   `json:"timeout,omitempty"`
}

func guarded(f func()) guard { return guardedFor(3*time.Second, f) }

func guardedFor(d time.Duration, f func()) guard {
	done := make(chan guard, 1)
	go func() {
		var g guard
		defer func() {
			if r := recover(); r != nil {
				g.Panic = fmt.Sprint(r)
			}
			done <- g
		}()
		f()
	}()
	select {
	case g := <-done:
		return g
	case <-time.After(d):
		return guard{Timeout: true}
	}
}

// ---------------------------------------------------------------- listings

func listingFor(format string, names []string, extra map[string]any) []byte {
	switch format {
	case "ollama":
		var ms []any
		for _, n := range names {
			m := map[string]any{"name": n, "model": n, "size": 4109865159, "digest": "sha256:" + strings.Repeat("ab", 8), "modified_at": "2024-05-01T10:00:00Z",
				"details": map[string]any{"family": "llama", "parameter_size": "8B", "quantization_level": "Q4_0", "format": "gguf"}}
			for k, v := range extra {
				m[k] = v
			}
			ms = append(ms, m)
		}
		b, _ := json.Marshal(map[string]any{"models": ms})
		return b
	default:
		var ms []any
		for _, n := range names {
			m := map[string]any{"id": n, "object": "model", "created": 1700000000, "owned_by": "org", "type": "llm", "state": "loaded", "max_context_length": 8192,
				"arch": "llama", "quantization": "Q4_K_M", "publisher": "p", "max_model_len": 4096}
			for k, v := range extra {
				m[k] = v
			}
			ms = append(ms, m)
		}
		b, _ := json.Marshal(map[string]any{"object": "list", "data": ms})
		return b
	}
}

func formatOf(profileName string) string {
	if profileName == "ollama" {
		return "ollama"
	}
	return "openai"
}

var junkValues = []string{`null`, `true`, `-1`, `1e999`, `9223372036854775808`, `"x"`, `[]`, `{}`, `[[[[[[[[[[]]]]]]]]]]`, `{"a":{"a":{"a":{"a":{"a":1}}}}}`, `"\ud800"`, `1.7976931348623157e309`, `-0`, `""`}

// mutate applies one structural mutation to a JSON document.
func mutate(r *vlib.Rng, b []byte) []byte {
	switch r.Intn(9) {
	case 0: // truncate
		if len(b) > 1 {
			return b[:r.Intn(len(b))]
		}
	case 1: // swap a value for junk
		s := string(b)
		idx := strings.Index(s[r.Intn(len(s)):], ":")
		if idx >= 0 {
			at := strings.Index(s, ":") + 1
			for k := 0; k < r.Intn(6); k++ {
				n := strings.Index(s[at:], ":")
				if n < 0 {
					break
				}
				at += n + 1
			}
			end := at
			depth := 0
			for end < len(s) {
				c := s[end]
				if c == '{' || c == '[' {
					depth++
				}
				if c == '}' || c == ']' {
					if depth == 0 {
						break
					}
					depth--
				}
				if c == ',' && depth == 0 {
					break
				}
				end++
			}
			return []byte(s[:at] + vlib.Pick(r, junkValues) + s[end:])
		}
	case 2: // invalid UTF-8 in the middle
		c := append([]byte{}, b...)
		if len(c) > 4 {
			c[len(c)/2] = 0xff
			c[len(c)/2+1] = 0xfe
		}
		return c
	case 3: // flip a byte
		c := append([]byte{}, b...)
		if len(c) > 0 {
			c[r.Intn(len(c))] ^= byte(1 << uint(r.Intn(8)))
		}
		return c
	case 4: // wrap in an array / deep nesting
		return []byte(strings.Repeat("[", 40+r.Intn(200)) + string(b) + strings.Repeat("]", 40))
	case 5: // drop a chunk
		if len(b) > 10 {
			i := r.Intn(len(b) - 5)
			return append(append([]byte{}, b[:i]...), b[i+1+r.Intn(4):]...)
		}
	case 6: // duplicate the document
		return append(append([]byte{}, b...), b...)
	case 7:
		return []byte(vlib.Pick(r, junkValues))
	}
	return b
}

func hexCap(b []byte) string {
	if len(b) > 600 {
		return hex.EncodeToString(b[:600]) + "..."
	}
	return hex.EncodeToString(b)
}

// ---------------------------------------------------------------- discover rounds

type round struct {
	Class string   `json:"class"` // good | dup | nameless | emptylist | emptybody | garbage | truncated | oversized | http500 | wrongtype | slowloris
	Names []string `json:"names"` // names carried by the listing (in order; may contain "" and duplicates)
}

type roundObs struct {
	Err      bool     `json:"err"`
	Names    []string `json:"names"` // registry listing for the endpoint after the round (sorted)
	Guard    guard    `json:"guard"`
	Stats    int      `json:"stats_models"` // registry stats: total models
	Routable []string `json:"routable"`     // names (from the alphabet and the listings so far) whose model->endpoints lookup contains this endpoint
}

var discoverSeq int

func discoverCase(c *vlib.Cases, pf *profile.Factory, epType string, rounds []round) {
	b := stack.NewBackend("D")
	defer b.Close()
	var cur []byte
	status := 200
	b.Listing = func(p string) (int, string) {
		return status, string(cur)
	}
	log := vlib.QuietLogger()
	repo := discovery.NewStaticEndpointRepositoryWithFactory(pf)
	pr := 1
	err := repo.LoadFromConfig(context.Background(), []config.EndpointConfig{{URL: b.URL(), Name: "D", Type: epType, Priority: &pr,
		HealthCheckURL: "/health", ModelURL: "/v1/models", CheckInterval: 5 * time.Second, CheckTimeout: 2 * time.Second}})
	if err != nil {
		c.Emit(map[string]any{"kind": "discover", "type": epType, "rounds": rounds, "impl": map[string]any{"setup_err": err.Error()}})
		return
	}
	eps, _ := repo.GetAll(context.Background())
	ep := eps[0]
	var reg domain.ModelRegistry = registry.NewUnifiedMemoryModelRegistry(log, &config.UnificationConfig{Enabled: true, CacheTTL: time.Minute}, nil, nil)
	discoverSeq++
	plain := discoverSeq%4 == 3 // model_registry.enable_unifier: false — the registry the factory builds then
	if plain {
		if pr, err := registry.NewModelRegistry(registry.RegistryConfig{Type: "memory", EnableUnifier: false}, log); err == nil {
			reg = pr
		}
	}
	client := discovery.NewHTTPModelDiscoveryClientWithDefaults(pf, log)
	svc := discovery.NewModelDiscoveryService(client, repo, reg, discovery.DiscoveryConfig{Interval: time.Hour, Timeout: 3 * time.Second, ConcurrentWorkers: 1, RetryAttempts: 1, RetryBackoff: time.Millisecond}, log)
	vlib.Breadcrumb(map[string]any{"kind": "discover", "type": epType, "rounds": rounds})
	var out []roundObs
	alphabet := map[string]bool{}
	for _, n := range namePool {
		alphabet[n] = true
	}
	for _, rd := range rounds {
		status = 200
		switch rd.Class {
		case "good", "dup", "nameless", "emptylist", "blankname":
			cur = listingFor(formatOf(epType), rd.Names, nil)
		case "emptybody":
			cur = nil
		case "garbage":
			cur = []byte("<html>502 Bad Gateway</html>\x00\xff")
		case "truncated":
			full := listingFor(formatOf(epType), rd.Names, nil)
			cur = full[:len(full)/2]
		case "oversized":
			cur = listingFor(formatOf(epType), rd.Names, map[string]any{"pad": strings.Repeat("x", discovery.MaxResponseSize+1)})
		case "http500":
			status = 500
			cur = []byte(`{"error":"boom"}`)
		case "wrongtype":
			cur = []byte(`{"models":"nope","data":42,"object":[1,2,3]}`)
		}
		var o roundObs
		o.Guard = guarded(func() {
			o.Err = svc.DiscoverEndpoint(context.Background(), ep) != nil
		})
		vlib.WaitUnifyIdle(reg, 15*time.Millisecond, 5*time.Second) // async unification settles
		ms, _ := reg.GetModelsForEndpoint(context.Background(), ep.URLString)
		for _, m := range ms {
			o.Names = append(o.Names, m.Name)
		}
		sort.Strings(o.Names)
		if o.Names == nil {
			o.Names = []string{}
		}
		st, _ := reg.GetStats(context.Background())
		o.Stats = st.TotalModels
		for _, n := range rd.Names {
			alphabet[n] = true
		}
		o.Routable = []string{}
		for n := range alphabet {
			if n == "" {
				continue
			}
			urls, _ := reg.GetEndpointsForModel(context.Background(), n)
			for _, u := range urls {
				if u == ep.URLString {
					o.Routable = append(o.Routable, n)
					break
				}
			}
		}
		sort.Strings(o.Routable)
		out = append(out, o)
	}
	c.Emit(map[string]any{"kind": "discover", "type": epType, "rounds": rounds, "impl": map[string]any{"obs": out}})
}

// discoverRoundCase: a whole discovery round (DiscoverAll, what the periodic loop and start-up run) over several endpoints
// with model_discovery.concurrent_workers = workers; in the middle round each endpoint answers with its own class of
// listing. The round must return, and afterwards a round of good listings must be taken up by every endpoint.
func discoverRoundCase(c *vlib.Cases, pf *profile.Factory, workers int, classes []string) {
	log := vlib.QuietLogger()
	n := len(classes)
	bes := make([]*stack.Backend, n)
	cur := make([][]byte, n)
	status := make([]int, n)
	var mu sync.Mutex
	var cfgs []config.EndpointConfig
	for i := 0; i < n; i++ {
		i := i
		bes[i] = stack.NewBackend(fmt.Sprintf("R%d", i))
		defer bes[i].Close()
		bes[i].Listing = func(string) (int, string) {
			mu.Lock()
			defer mu.Unlock()
			return status[i], string(cur[i])
		}
		pr := 100 - i
		cfgs = append(cfgs, config.EndpointConfig{URL: bes[i].URL(), Name: bes[i].Name, Type: "openai", Priority: &pr,
			HealthCheckURL: "/health", ModelURL: "/v1/models", CheckInterval: 5 * time.Second, CheckTimeout: 2 * time.Second})
	}
	repo := discovery.NewStaticEndpointRepositoryWithFactory(pf)
	if err := repo.LoadFromConfig(context.Background(), cfgs); err != nil {
		c.Emit(map[string]any{"kind": "discover-round", "workers": workers, "classes": classes, "impl": map[string]any{"setup_err": err.Error()}})
		return
	}
	eps, _ := repo.GetAll(context.Background())
	byName := map[string]*domain.Endpoint{}
	for _, e := range eps {
		cp := *e
		cp.Status = domain.StatusHealthy
		repo.UpdateEndpoint(context.Background(), &cp)
		byName[e.Name] = e
	}
	var reg domain.ModelRegistry = registry.NewUnifiedMemoryModelRegistry(log, &config.UnificationConfig{Enabled: true, CacheTTL: time.Minute}, nil, nil)
	client := discovery.NewHTTPModelDiscoveryClientWithDefaults(pf, log)
	svc := discovery.NewModelDiscoveryService(client, repo, reg, discovery.DiscoveryConfig{Interval: time.Hour, Timeout: 3 * time.Second, ConcurrentWorkers: workers, RetryAttempts: 1, RetryBackoff: time.Millisecond}, log)
	vlib.Breadcrumb(map[string]any{"kind": "discover-round", "workers": workers, "classes": classes})
	set := func(round int) {
		mu.Lock()
		defer mu.Unlock()
		for i := 0; i < n; i++ {
			status[i] = 200
			names := []string{fmt.Sprintf("m%d-r%d", i, round), "shared"}
			cl := "good"
			if round == 1 {
				cl = classes[i]
			}
			switch cl {
			case "good":
				cur[i] = listingFor("openai", names, nil)
			case "garbage":
				cur[i] = []byte("<html>502 Bad Gateway</html>\x00\xff")
			case "truncated":
				full := listingFor("openai", names, nil)
				cur[i] = full[:len(full)/2]
			case "http500":
				status[i], cur[i] = 500, []byte(`{"error":"boom"}`)
			case "emptybody":
				cur[i] = nil
			case "wrongtype":
				cur[i] = []byte(`{"models":"nope","data":42,"object":[1,2,3]}`)
			}
		}
	}
	type robs struct {
		Returned bool       `json:"returned"`
		Guard    guard      `json:"guard"`
		Names    [][]string `json:"names"`
	}
	var out []robs
	for round := 0; round < 3; round++ {
		set(round)
		var o robs
		ctx, cancel := context.WithTimeout(context.Background(), 10*time.Second)
		done := make(chan struct{})
		go func() {
			defer func() {
				if r := recover(); r != nil {
					o.Guard.Panic = fmt.Sprint(r)
				}
				close(done)
			}()
			_ = svc.DiscoverAll(ctx)
		}()
		select {
		case <-done:
			o.Returned = true
		case <-time.After(6 * time.Second):
			o.Guard.Timeout = true
		}
		cancel()
		vlib.WaitUnifyIdle(reg, 30*time.Millisecond, 5*time.Second) // async unification settles
		for i := 0; i < n; i++ {
			ms, _ := reg.GetModelsForEndpoint(context.Background(), byName[bes[i].Name].URLString)
			names := []string{}
			for _, m := range ms {
				names = append(names, m.Name)
			}
			sort.Strings(names)
			o.Names = append(o.Names, names)
		}
		out = append(out, o)
		if !o.Returned {
			break
		}
	}
	c.Emit(map[string]any{"kind": "discover-round", "workers": workers, "classes": classes, "impl": map[string]any{"rounds": out}})
}

// discoverOverlapCase: one endpoint keeps answering its listing request with garbage, the others answer well; whole
// rounds (DiscoverAll, the periodic loop) overlap with single-endpoint refreshes (DiscoverEndpoint, what the health
// checker's recovery hook runs).  Nothing may wedge: every call returns, and afterwards a listing change of a good
// endpoint is taken up.
func discoverOverlapCase(c *vlib.Cases, pf *profile.Factory, n, iterations int) {
	log := vlib.QuietLogger()
	bes := make([]*stack.Backend, n)
	var mu sync.Mutex
	gen := 0
	var cfgs []config.EndpointConfig
	for i := 0; i < n; i++ {
		i := i
		bes[i] = stack.NewBackend(fmt.Sprintf("O%d", i))
		defer bes[i].Close()
		bes[i].Listing = func(string) (int, string) {
			if i == 0 {
				return 200, "<html>502 Bad Gateway</html>"
			}
			mu.Lock()
			defer mu.Unlock()
			return 200, string(listingFor("openai", []string{fmt.Sprintf("m%d-g%d", i, gen)}, nil))
		}
		pr := 100 - i
		cfgs = append(cfgs, config.EndpointConfig{URL: bes[i].URL(), Name: bes[i].Name, Type: "openai", Priority: &pr,
			HealthCheckURL: "/health", ModelURL: "/v1/models", CheckInterval: 5 * time.Second, CheckTimeout: 2 * time.Second})
	}
	repo := discovery.NewStaticEndpointRepositoryWithFactory(pf)
	if err := repo.LoadFromConfig(context.Background(), cfgs); err != nil {
		c.Emit(map[string]any{"kind": "discover-overlap", "n": n, "impl": map[string]any{"setup_err": err.Error()}})
		return
	}
	eps, _ := repo.GetAll(context.Background())
	for _, e := range eps {
		cp := *e
		cp.Status = domain.StatusHealthy
		repo.UpdateEndpoint(context.Background(), &cp)
	}
	eps, _ = repo.GetAll(context.Background())
	var reg domain.ModelRegistry = registry.NewUnifiedMemoryModelRegistry(log, &config.UnificationConfig{Enabled: true, CacheTTL: time.Minute}, nil, nil)
	client := discovery.NewHTTPModelDiscoveryClientWithDefaults(pf, log)
	svc := discovery.NewModelDiscoveryService(client, repo, reg, discovery.DiscoveryConfig{Interval: time.Hour, Timeout: 3 * time.Second, ConcurrentWorkers: 2, RetryAttempts: 1, RetryBackoff: time.Millisecond}, log)
	vlib.Breadcrumb(map[string]any{"kind": "discover-overlap", "n": n, "iterations": iterations})
	stuck := ""
	// refreshers: every endpoint is re-discovered over and over (recovery hooks), each completion writes the service's
	// failure bookkeeping; meanwhile whole rounds run one after the other
	var halt atomic.Bool
	var rwg sync.WaitGroup
	bg, cancelBg := context.WithCancel(context.Background())
	for _, e := range eps {
		e := e
		rwg.Add(1)
		go func() {
			defer rwg.Done()
			for !halt.Load() {
				_ = svc.DiscoverEndpoint(bg, e)
			}
		}()
	}
	for it := 0; it < iterations && stuck == ""; it++ {
		mu.Lock()
		gen = it
		mu.Unlock()
		done := make(chan struct{})
		ctx, cancel := context.WithTimeout(context.Background(), 8*time.Second)
		go func() { _ = svc.DiscoverAll(ctx); close(done) }()
		select {
		case <-done:
		case <-time.After(5 * time.Second):
			stuck = fmt.Sprintf("round %d (DiscoverAll) had not returned after 5 s while single-endpoint refreshes were running", it)
		}
		cancel()
	}
	halt.Store(true)
	stopped := make(chan struct{})
	go func() { rwg.Wait(); close(stopped) }()
	select {
	case <-stopped:
	case <-time.After(5 * time.Second):
		if stuck == "" {
			stuck = "the single-endpoint refreshes had not returned 5 s after the last round"
		}
	}
	cancelBg()
	if stuck == "" { // one quiet round so that the last listings are the ones in the catalogue
		_ = svc.DiscoverAll(context.Background())
	}
	taken := true
	if stuck == "" {
		time.Sleep(30 * time.Millisecond)
		for i := 1; i < n; i++ {
			var u string
			for _, e := range eps {
				if e.Name == bes[i].Name {
					u = e.URLString
				}
			}
			ms, _ := reg.GetModelsForEndpoint(context.Background(), u)
			if len(ms) != 1 || ms[0].Name != fmt.Sprintf("m%d-g%d", i, iterations-1) {
				taken = false
			}
		}
	}
	c.Emit(map[string]any{"kind": "discover-overlap", "n": n, "iterations": iterations, "impl": map[string]any{"stuck": stuck, "last_listing_taken_up": taken}})
}

var namePool = []string{"llama3:8b", "llama3:70b", "phi4:latest", "phi4:latest ", " phi4:latest", "llama3:8b\t", "Qwen2.5-Coder", "mistral", "a::b", "x*", "gemma2:9b",
	// names a backend is free to use: namespaces, hub prefixes, non-ASCII letters whose case mappings change length
	"hf.co/unsloth/Qwen3-32B-GGUF", "ȺȺȺ/m", "hf.co/ȺȾȺȾ/q", "İstanbul/model:İ", "模型/七", "ǅ/ǆ", "ﬁne/ﬂ", "a/b/c/d", "/", "//x", "org/", ":tag", "e\u0301/e\u0301"}

func genNames(r *vlib.Rng) []string {
	pool := namePool
	n := 1 + r.Intn(4)
	out := make([]string, n)
	for i := range out {
		out[i] = vlib.Pick(r, pool)
	}
	return out
}

func genRounds(r *vlib.Rng) []round {
	classes := []string{"good", "good", "good", "dup", "nameless", "blankname", "emptylist", "emptybody", "garbage", "truncated", "http500", "wrongtype"}
	n := 2 + r.Intn(5)
	out := []round{{Class: "good", Names: genNames(r)}}
	for i := 1; i < n; i++ {
		cl := vlib.Pick(r, classes)
		rd := round{Class: cl, Names: genNames(r)}
		switch cl {
		case "dup":
			rd.Names = append(rd.Names, rd.Names[0], rd.Names[len(rd.Names)-1])
		case "nameless":
			rd.Names = append([]string{""}, rd.Names...)
			if r.Bool() {
				rd.Names = append(rd.Names, "")
			}
		case "emptylist":
			rd.Names = []string{}
		case "blankname": // a name that is only white space, after a valid entry
			rd.Names = append(rd.Names, vlib.Pick(r, []string{"  ", " ", "\t"}))
		}
		out = append(out, rd)
	}
	return out
}

// ---------------------------------------------------------------- metrics

var chunkSeeds = map[string][]string{
	"ollama": {`{"model":"llama3","created_at":"2024-01-01T00:00:00Z","response":"","done":true,"done_reason":"stop","total_duration":5191566416,"load_duration":2154458,"prompt_eval_count":26,"prompt_eval_duration":383809000,"eval_count":298,"eval_duration":4799921000}`},
	"openai": {`{"id":"chatcmpl-1","object":"chat.completion","model":"gpt","choices":[{"index":0,"message":{"role":"assistant","content":"hi"},"finish_reason":"stop"}],"usage":{"prompt_tokens":9,"completion_tokens":12,"total_tokens":21}}`,
		`data: {"id":"c","object":"chat.completion.chunk","choices":[{"delta":{},"finish_reason":"stop"}],"usage":{"prompt_tokens":9,"completion_tokens":12,"total_tokens":21}}`},
	"lm-studio": {`{"id":"c","object":"chat.completion","model":"m","choices":[{"index":0,"message":{"role":"assistant","content":"x"},"finish_reason":"stop"}],"usage":{"prompt_tokens":5,"completion_tokens":7,"total_tokens":12},"stats":{"tokens_per_second":51.4,"time_to_first_token":0.11,"generation_time":0.95}}`},
	"vllm":      {`{"id":"c","object":"chat.completion","model":"m","choices":[{"index":0,"message":{"role":"assistant","content":"x"},"finish_reason":"length"}],"usage":{"prompt_tokens":5,"completion_tokens":7,"total_tokens":12}}`},
	"llamacpp":  {`{"content":"x","stop":true,"model":"m","tokens_predicted":12,"tokens_evaluated":5,"timings":{"prompt_n":5,"prompt_ms":12.5,"predicted_n":12,"predicted_ms":220.1,"predicted_per_second":54.5}}`},
}

type metricsObs struct {
	Nil    bool    `json:"nil"`
	Finite bool    `json:"finite"`
	TPS    string  `json:"tps"`
	Ints   []int32 `json:"ints"`
	Guard  guard   `json:"guard"`
}

func metricsCase(c *vlib.Cases, ex *metrics.Extractor, provider string, chunk []byte, how string) {
	var o metricsObs
	o.Guard = guarded(func() {
		m := ex.ExtractFromChunk(context.Background(), chunk, provider)
		if m == nil {
			o.Nil = true
			o.Finite = true
			return
		}
		t := float64(m.TokensPerSecond)
		o.Finite = !math.IsNaN(t) && !math.IsInf(t, 0)
		o.TPS = fmt.Sprint(m.TokensPerSecond)
		o.Ints = []int32{m.InputTokens, m.OutputTokens, m.TotalTokens, m.TTFTMs, m.TotalMs, m.ModelLoadMs, m.PromptMs, m.GenerationMs}
	})
	c.Emit(map[string]any{"kind": "metrics", "provider": provider, "how": how, "chunk_hex": hexCap(chunk), "impl": o})
}

// ---------------------------------------------------------------- translators

func xlateCase(c *vlib.Cases, tr *anthropic.Translator, body []byte, stream bool, how string) {
	var outcome string
	g := guarded(func() {
		req := httptest.NewRequest("POST", "/olla/anthropic/v1/messages", strings.NewReader(`{}`))
		if stream {
			w := httptest.NewRecorder()
			err := tr.TransformStreamingResponse(context.Background(), bytes.NewReader(body), w, req)
			outcome = fmt.Sprintf("stream err=%v bytes=%d", err != nil, w.Body.Len())
		} else {
			var v any
			if json.Unmarshal(body, &v) != nil {
				outcome = "not-json"
				return
			}
			_, err := tr.TransformResponse(context.Background(), v, req)
			outcome = fmt.Sprintf("resp err=%v", err != nil)
		}
	})
	c.Emit(map[string]any{"kind": "xlate", "stream": stream, "how": how, "body_hex": hexCap(body), "impl": map[string]any{"guard": g, "outcome": outcome}})
}

// genStream: a chat-completion stream put together from the grammar of what backends send — text deltas, tool calls
// opened (id + name) under an index and continued by argument fragments under that index, a finish chunk, usage, [DONE] —
// and from what broken backends leave out or reorder: fragments for an index that was never opened (the opening chunk
// lost), indices that skip, fragments that do not add up to JSON, no text before the tools, no finish, no [DONE].
// All streams go through ONE translator, one after the other: what an earlier stream opened must not matter to a later one.
func genStream(r *vlib.Rng) []byte {
	var b bytes.Buffer
	ev := func(delta string, extra string) {
		fmt.Fprintf(&b, "data: {\"id\":\"c\",\"model\":\"m\",\"choices\":[{\"index\":0,\"delta\":%s%s}]}\n\n", delta, extra)
	}
	if r.Chance(2, 3) {
		ev(`{"role":"assistant","content":""}`, "")
	}
	for n := r.Intn(3); n > 0; n-- {
		ev(fmt.Sprintf(`{"content":"t%d"}`, r.Intn(100)), "")
	}
	idx := 0
	for k := r.Intn(4); k > 0; k-- {
		if r.Chance(1, 4) {
			idx += 1 + r.Intn(3) // indices that skip
		}
		if !r.Chance(1, 4) { // the opening chunk; sometimes lost
			ev(fmt.Sprintf(`{"tool_calls":[{"index":%d,"id":"call_%d","type":"function","function":{"name":"f%d","arguments":""}}]}`, idx, idx, idx), "")
		}
		args := vlib.Pick(r, []string{`{"a":1}`, `{}`, `{"q":"x y","n":[1,2]}`, `{"a":`, `nonsense`, ``})
		for len(args) > 0 {
			cut := 1 + r.Intn(len(args))
			frag, _ := json.Marshal(args[:cut])
			ev(fmt.Sprintf(`{"tool_calls":[{"index":%d,"function":{"arguments":%s}}]}`, idx, frag), "")
			args = args[cut:]
		}
		idx++
		if r.Chance(1, 5) {
			ev(fmt.Sprintf(`{"content":"between%d"}`, r.Intn(10)), "")
		}
	}
	if !r.Chance(1, 8) {
		ev(`{}`, fmt.Sprintf(`,"finish_reason":"%s"`, vlib.Pick(r, []string{"stop", "tool_calls", "length"})))
	}
	if r.Bool() {
		b.WriteString("data: {\"choices\":[],\"usage\":{\"prompt_tokens\":3,\"completion_tokens\":4,\"total_tokens\":7}}\n\n")
	}
	if !r.Chance(1, 8) {
		b.WriteString("data: [DONE]\n\n")
	}
	return b.Bytes()
}

// ---------------------------------------------------------------- relays through the running stack

// relayCase: a backend answers a proxied / translated request with an arbitrary status and an arbitrary
// (possibly huge or garbage) body. Whatever it says, the request must END (no hang: the client gets the
// end of a response or a closed connection within the bound) and the stack must still serve the next request.
func relayCase(c *vlib.Cases, engine, route string, stream bool, status int, body []byte, ct, how string) {
	b := stack.NewBackend("R")
	defer b.Close()
	b.Listing = func(p string) (int, string) {
		if strings.HasSuffix(p, "/v1/models") {
			return 200, `{"object":"list","data":[{"id":"m1","object":"model"}]}`
		}
		return 0, ""
	}
	poison := true
	b.SetScript(func(int, *stack.Seen) stack.Behaviour {
		if poison {
			return stack.Behaviour{Kind: "ok", Status: status, Headers: [][2]string{{"Content-Type", ct}}, Body: body}
		}
		return stack.Behaviour{Kind: "ok", Status: 200, Headers: [][2]string{{"Content-Type", "application/json"}}, Body: []byte(chunkSeeds["openai"][0])}
	})
	s, err := stack.Start(stack.Opts{Vary: stack.VaryFor("c20.relay", engine, route, stream, status, ct, how), Engine: engine, Balancer: "priority", ModelDiscovery: true, EPs: []stack.EP{{Name: "R", Type: "openai", Priority: 1, Backend: b}}})
	if err != nil {
		c.Emit(map[string]any{"kind": "relay", "impl": map[string]any{"start_err": err.Error()}})
		return
	}
	defer s.Stop()
	path, reqBody := "/olla/proxy/v1/chat/completions", fmt.Sprintf(`{"model":"m1","stream":%v,"messages":[{"role":"user","content":"x"}]}`, stream)
	if route == "anthropic" {
		path, reqBody = "/olla/anthropic/v1/messages", fmt.Sprintf(`{"model":"m1","max_tokens":8,"stream":%v,"messages":[{"role":"user","content":"x"}]}`, stream)
	}
	hdr := [][2]string{{"Content-Type", "application/json"}, {"anthropic-version", "2023-06-01"}}
	r1 := stack.Do(s.Addr, stack.Request("POST", path, s.Addr, hdr, []byte(reqBody), false), 4*time.Second)
	poison = false
	r2 := stack.Do(s.Addr, stack.Request("POST", "/olla/proxy/v1/chat/completions", s.Addr, hdr, []byte(`{"model":"m1","messages":[]}`), false), 4*time.Second)
	c.Emit(map[string]any{"kind": "relay", "engine": engine, "route": route, "stream": stream, "status": status, "how": how, "body_len": len(body),
		"impl": map[string]any{"err": r1.Err, "client_status": r1.Status, "ms": r1.Ms, "got": len(r1.Body), "probe_status": r2.Status, "probe_err": r2.Err}})
}

// recoverWithBadListing: production stack with model discovery on; the backend lists two models, fails a health check,
// passes the next one, and answers the model listing that the recovery hook fetches with something unusable. A
// listing that cannot be used leaves the endpoint's previous catalogue in place.
func recoverWithBadListing(how string) map[string]any {
	b := stack.NewBackend("R")
	defer b.Close()
	var bad atomic.Bool
	good := `{"object":"list","data":[{"id":"zz-m1","object":"model"},{"id":"zz-m2","object":"model"}]}`
	b.Listing = func(path string) (int, string) {
		if !strings.HasSuffix(path, "/models") {
			return 0, ""
		}
		if !bad.Load() {
			return 200, good
		}
		switch how {
		case "html-500":
			return 500, "<html><body>Internal Server Error</body></html>"
		case "truncated-json":
			return 200, good[:len(good)/2]
		case "html-200": // a captive portal / reverse proxy error page served with 200
			return 200, "<html><body>It works!</body></html>"
		}
		return 200, "\x00\x01 not json at all }{"
	}
	s, err := stack.Start(stack.Opts{Vary: stack.VaryFor("c20.recover", how), Engine: "sherpa", Balancer: "priority", ModelDiscovery: true, EPs: []stack.EP{{Name: "R", Type: "openai", Priority: 100, Backend: b}}})
	if err != nil {
		return map[string]any{"start_err": err.Error()}
	}
	defer s.Stop()
	reg, err := s.Disc.GetRegistry()
	if err != nil {
		return map[string]any{"start_err": err.Error()}
	}
	names := func() []string {
		ms, _ := reg.GetModelsForEndpoint(context.Background(), b.URL())
		out := []string{}
		for _, m := range ms {
			out = append(out, m.Name)
		}
		sort.Strings(out)
		return out
	}
	deadline := time.Now().Add(4 * time.Second)
	for len(names()) != 2 && time.Now().Before(deadline) {
		time.Sleep(10 * time.Millisecond)
	}
	before := names()
	hc, err := s.Disc.GetHealthChecker()
	if err != nil {
		return map[string]any{"start_err": err.Error()}
	}
	atomic.StoreInt32(&b.HealthStatus, 503)
	_ = hc.RunHealthCheck(context.Background(), true)
	down := s.Statuses()["R"]
	bad.Store(true)
	atomic.StoreInt32(&b.HealthStatus, 0)
	_ = hc.RunHealthCheck(context.Background(), true)
	time.Sleep(400 * time.Millisecond) // the recovery hook runs in its own goroutine
	after := names()
	lookup, _ := reg.GetEndpointsForModel(context.Background(), "zz-m1")
	return map[string]any{"before": before, "after": after, "status_when_down": down, "status_after": s.Statuses()["R"], "lookup_m1": len(lookup)}
}

func main() {
	tier := vlib.Tier()
	r := vlib.NewRng(vlib.Seed())
	c := vlib.OpenCases("cases.jsonl")
	thorough := tier == "thorough"
	log := vlib.QuietLogger()
	pf, err := profile.NewFactoryWithDefaults()
	if err != nil {
		panic(err)
	}
	profiles := pf.GetAvailableProfiles()
	sort.Strings(profiles)

	// parse: every profile x (valid seed + mutations)
	nmut := 40
	if thorough {
		nmut = 3000
	}
	for _, pn := range profiles {
		p, err := pf.GetProfile(pn)
		if err != nil {
			continue
		}
		seeds := [][]byte{listingFor("ollama", []string{"llama3:8b", "phi4"}, nil), listingFor("openai", []string{"gpt-x", "m2"}, nil),
			listingFor("openai", []string{"", "dup", "dup"}, nil), []byte(``), []byte(`{}`), []byte(`{"data":null,"models":null}`)}
		for i := 0; i < nmut+len(seeds); i++ {
			var data []byte
			how := "seed"
			if i < len(seeds) {
				data = seeds[i]
			} else {
				data = mutate(r, vlib.Pick(r, seeds[:3]))
				if r.Chance(1, 3) {
					data = mutate(r, data)
				}
				how = "mutated"
			}
			var names []string
			var perr bool
			g := guarded(func() {
				ms, e := p.ParseModelsResponse(data)
				perr = e != nil
				for _, m := range ms {
					if m == nil {
						names = append(names, "<nil>")
					} else {
						names = append(names, m.Name)
					}
				}
			})
			c.Emit(map[string]any{"kind": "parse", "profile": pn, "how": how, "data_hex": hexCap(data), "impl": map[string]any{"guard": g, "err": perr, "names": names}})
			c.Count("parse." + how)
		}
	}

	u8Listings(c, r.Fork(), pf, profiles, thorough)

	// discover
	nd := 40
	if thorough {
		nd = 800
	}
	types := []string{"ollama", "openai", "lm-studio", "vllm"}
	// known shapes first
	// whole rounds over several endpoints, fewer workers than endpoints, several endpoints answering badly at once
	for _, workers := range []int{1, 2, 5} {
		for _, classes := range [][]string{{"garbage", "garbage", "good"}, {"http500", "truncated", "wrongtype", "good"}, {"good", "emptybody", "garbage", "http500", "garbage", "truncated"}, {"good", "good", "good"}} {
			discoverRoundCase(c, pf, workers, classes)
			c.Count("discover-round")
		}
	}
	discoverOverlapCase(c, pf, 4, map[bool]int{false: 150, true: 1500}[thorough])
	c.Count("discover-overlap")
	// a model id with a leading or trailing blank (valid JSON, seen from hand-edited model lists): a different name
	discoverCase(c, pf, "openai", []round{{"good", []string{"phi-4", "x"}}, {"good", []string{"phi-4 ", "x"}}, {"good", []string{" phi-4"}}, {"emptylist", []string{}}, {"good", []string{"phi-4"}}, {"good", []string{"phi-4 ", "phi-4"}}, {"good", []string{"phi-4 "}}})
	discoverCase(c, pf, "ollama", []round{{"good", []string{"phi-4"}}, {"good", []string{" phi-4"}}, {"good", []string{"y"}}})
	discoverCase(c, pf, "openai", []round{{"good", []string{"a", "b"}}, {"garbage", nil}, {"truncated", []string{"c"}}, {"http500", nil}, {"emptylist", []string{}}, {"good", []string{"c"}}})
	discoverCase(c, pf, "ollama", []round{{"good", []string{"x", "y"}}, {"nameless", []string{"", "z"}}, {"dup", []string{"z", "z", "w"}}, {"wrongtype", nil}, {"emptybody", nil}})
	discoverCase(c, pf, "openai", []round{{"good", []string{"a"}}, {"oversized", []string{"big"}}, {"good", []string{"b"}}})
	discoverCase(c, pf, "ollama", []round{{"good", []string{"llama3:8b", "mistral"}}, {"blankname", []string{"mistral", "  "}}, {"good", []string{"phi4:latest"}}})
	for i := 0; i < nd; i++ {
		discoverCase(c, pf, vlib.Pick(r, types), genRounds(r))
		c.Count("discover")
	}
	// listings whose names are multi-byte and of boundary lengths, through the real client, service and registry
	ru := r.Fork()
	for i := 0; i < map[bool]int{false: 6, true: 120}[thorough]; i++ {
		rs := genRounds(ru)
		for k := range rs {
			for j := range rs[k].Names {
				if rs[k].Names[j] != "" && strings.TrimSpace(rs[k].Names[j]) != "" && ru.Chance(2, 3) {
					rs[k].Names[j] = u8String(ru, u8Alphabets[1+ru.Intn(4)], vlib.Pick(ru, []int{4, 19, 20, 21, 22, 24, 63, 64, 65, 127, 128, 129, 255, 256, 257, 1023, 1024, 1025, 4095, 4096, 4097, 8192, 65536}))
				}
			}
			if rs[k].Class == "dup" && len(rs[k].Names) > 2 { // keep the duplicates duplicates
				rs[k].Names[len(rs[k].Names)-2] = rs[k].Names[0]
			}
		}
		discoverCase(c, pf, vlib.Pick(ru, types), rs)
		c.Count("discover.u8")
	}

	// metrics + clamps
	ex, err := metrics.NewExtractor(pf, log)
	if err != nil {
		panic(err)
	}
	nm := 60
	if thorough {
		nm = 4000
	}
	for prov, seeds := range chunkSeeds {
		for _, s := range seeds {
			metricsCase(c, ex, prov, []byte(s), "seed")
			for i := 0; i < nm; i++ {
				m := mutate(r, []byte(s))
				if r.Chance(1, 2) {
					m = mutate(r, m)
				}
				metricsCase(c, ex, prov, m, "mutated")
				c.Count("metrics.mutated")
			}
		}
	}
	u8Metrics(c, r.Fork(), ex, thorough)
	// division by zero / overflow shapes for the derived tokens-per-second
	for _, s := range []string{
		`{"done":true,"eval_count":298,"eval_duration":0,"prompt_eval_count":1,"prompt_eval_duration":0,"total_duration":0}`,
		`{"done":true,"eval_count":9223372036854775807,"eval_duration":1,"prompt_eval_count":-5,"total_duration":-1}`,
		`{"done":true,"eval_count":1e308,"eval_duration":1e-308}`,
		`{"usage":{"prompt_tokens":1e400,"completion_tokens":-1e400,"total_tokens":"NaN"}}`,
	} {
		for prov := range chunkSeeds {
			metricsCase(c, ex, prov, []byte(s), "edge")
		}
	}
	ints := []int64{math.MinInt64, math.MinInt32 - 1, math.MinInt32, -1, 0, 1, math.MaxInt32, math.MaxInt32 + 1, math.MaxInt64}
	for i := 0; i < 50; i++ {
		ints = append(ints, int64(r.U64()))
	}
	for _, v := range ints {
		c.Emit(map[string]any{"kind": "clamp32", "in": fmt.Sprint(v), "impl": map[string]any{"out": fmt.Sprint(util.SafeInt32(v))}})
	}
	fl := []struct {
		cls string
		v   float64
	}{{"nan", math.NaN()}, {"+inf", math.Inf(1)}, {"-inf", math.Inf(-1)}, {"big+", math.MaxFloat32 * 2}, {"big-", -math.MaxFloat32 * 2},
		{"normal", 0}, {"normal", 1.5}, {"normal", -3.25}, {"normal", math.MaxFloat32}, {"normal", -math.MaxFloat32}, {"big+", math.MaxFloat64}}
	for _, f := range fl {
		o := util.SafeFloat32(f.v)
		cls := "same"
		switch {
		case math.IsNaN(float64(o)) || math.IsInf(float64(o), 0):
			cls = "nonfinite"
		case f.cls != "normal" && o == 0:
			cls = "zero"
		case o == math.MaxFloat32 && f.cls != "normal":
			cls = "max+"
		case o == -math.MaxFloat32 && f.cls != "normal":
			cls = "max-"
		case float64(o) != f.v:
			cls = "changed"
		}
		c.Emit(map[string]any{"kind": "clampf", "in_class": f.cls, "impl": map[string]any{"out_class": cls}})
	}

	// translators
	trCfg := config.AnthropicTranslatorConfig{Enabled: true, MaxMessageSize: 10 << 20}
	tr := anthropic.NewTranslator(log, trCfg)
	nx := 80
	if thorough {
		nx = 5000
	}
	respSeed := []byte(chunkSeeds["openai"][0])
	toolSeed := []byte(`{"id":"c","object":"chat.completion","model":"m","choices":[{"index":0,"message":{"role":"assistant","content":null,"tool_calls":[{"id":"call_1","type":"function","function":{"name":"f","arguments":"{\"a\":1}"}}]},"finish_reason":"tool_calls"}],"usage":{"prompt_tokens":1,"completion_tokens":2,"total_tokens":3}}`)
	streamSeed := []byte("data: {\"id\":\"c\",\"model\":\"m\",\"choices\":[{\"index\":0,\"delta\":{\"role\":\"assistant\",\"content\":\"He\"}}]}\n\ndata: {\"choices\":[{\"index\":0,\"delta\":{\"content\":\"llo\"}}]}\n\ndata: {\"choices\":[{\"index\":0,\"delta\":{\"tool_calls\":[{\"index\":0,\"id\":\"call_1\",\"type\":\"function\",\"function\":{\"name\":\"f\",\"arguments\":\"{\\\"a\\\"\"}}]}}]}\n\ndata: {\"choices\":[{\"index\":0,\"delta\":{\"tool_calls\":[{\"index\":0,\"function\":{\"arguments\":\":1}\"}}]}}]}\n\ndata: {\"choices\":[{\"index\":0,\"delta\":{},\"finish_reason\":\"tool_calls\"}],\"usage\":{\"prompt_tokens\":1,\"completion_tokens\":2}}\n\ndata: [DONE]\n\n")
	xlateCase(c, tr, respSeed, false, "seed")
	xlateCase(c, tr, toolSeed, false, "seed")
	xlateCase(c, tr, streamSeed, true, "seed")
	for i := 0; i < nx; i++ {
		xlateCase(c, tr, mutate(r, vlib.Pick(r, [][]byte{respSeed, toolSeed})), false, "mutated")
		xlateCase(c, tr, mutate(r, streamSeed), true, "mutated")
		c.Count("xlate.mutated")
		for k := 0; k < 4; k++ {
			xlateCase(c, tr, genStream(r), true, "generated")
			c.Count("xlate.generated")
		}
		if r.Chance(1, 4) {
			xlateCase(c, tr, streamSeed, true, "seed")
		}
	}
	u8Translator(c, r.Fork(), tr, thorough)
	// relays through the running stack: error bodies and success bodies of every size and shape
	type rb struct {
		how  string
		ct   string
		body []byte
	}
	bodies := []rb{{"small-json", "application/json", []byte(`{"error":{"message":"boom"}}`)}, {"empty", "application/json", nil},
		{"garbage", "text/html", []byte("<html>\x00\xff\xfe</html>")}, {"70KiB", "text/plain", bytes.Repeat([]byte("e"), 70<<10)},
		{"256KiB", "application/json", []byte(`{"error":{"message":"` + strings.Repeat("x", 256<<10) + `"}}`)}, {"2MiB", "text/html", bytes.Repeat([]byte("<p>trace</p>\n"), 150000)},
		{"wrong-shape", "application/json", []byte(`{"choices":[]}`)},
		// short multi-byte payloads where JSON was expected (tool arguments, a data: line), 21 bytes / 7 characters and around
		{"u8-args", "application/json", respBody(r, "args", u8String(r, u8Alphabets[2], 21))}, {"u8-args-emoji", "application/json", respBody(r, "args", u8Runes(r, u8Alphabets[3], 5+r.Intn(12)))},
		{"u8-sse-line", "text/event-stream", streamBody(r, "dataline", u8String(r, u8Alphabets[1+r.Intn(4)], 21+r.Intn(44)))}, {"sse-garbage", "text/event-stream", []byte("data: {not json\n\ndata: [DONE]\n\n")}}
	type rj struct {
		engine, route string
		stream        bool
		status        int
		b             rb
	}
	var rjs []rj
	for _, engine := range []string{"sherpa", "olla"} {
		for _, route := range []string{"anthropic", "proxy"} {
			for _, stream := range []bool{false, true} {
				for _, st := range []int{200, 400, 500} {
					for _, b := range bodies {
						if thorough || st == 500 || r.Chance(1, 4) {
							rjs = append(rjs, rj{engine, route, stream, st, b})
						}
					}
				}
			}
		}
	}
	var rmu sync.Mutex
	_ = rmu
	done := make(chan bool, 16)
	sem := make(chan bool, 16)
	for _, j := range rjs {
		j := j
		sem <- true
		go func() {
			relayCase(c, j.engine, j.route, j.stream, j.status, j.b.body, j.b.ct, j.b.how)
			<-sem
			done <- true
		}()
	}
	for range rjs {
		<-done
	}
	c.Count("relay")
	// the production wiring: an endpoint fails a health check, recovers, and the listing fetched on recovery is bad
	for _, how := range []string{"garbage", "html-500", "truncated-json", "html-200"} {
		c.Emit(map[string]any{"kind": "recover", "how": how, "impl": recoverWithBadListing(how)})
		c.Count("recover")
	}
	c.Close(map[string]any{"exhaustive": false, "exhaustive_note": "sampling only: structural mutations of each provider's response shapes"})
	_ = domain.StatusHealthy
	_ = http.StatusOK
}
