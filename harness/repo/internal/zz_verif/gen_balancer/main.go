//go:build verif

// gen_balancer renders Olla/Gen/Balancer.lean: the status tables the balancers
// and the repository consult, obtained by calling the compiled methods.
package main

import (
	"math"

	"github.com/thushan/olla/internal/adapter/balancer"
	"github.com/thushan/olla/internal/core/domain"
	"github.com/thushan/olla/internal/zz_verif/vlib"
)

func main() {
	const ns = "Olla.Gen.Balancer"
	f := vlib.NewLeanFile(ns, "gen_balancer")
	statuses := []domain.EndpointStatus{domain.StatusHealthy, domain.StatusBusy, domain.StatusOffline,
		domain.StatusWarming, domain.StatusUnhealthy, domain.StatusUnknown, domain.EndpointStatus("bogus")}
	var rows []string
	for _, s := range statuses {
		w := s.GetTrafficWeight()
		// exact tenths: the model never uses Float; a weight that is not a
		// non-negative multiple of 0.1 is rendered as 999999 so the side
		// condition `weights are tenths` fails loudly instead of being rounded.
		t := math.Round(w * 10)
		tenths := uint64(999999)
		if t >= 0 && math.Abs(w*10-t) < 1e-9 {
			tenths = uint64(t)
		}
		rows = append(rows, vlib.LeanTuple(vlib.LeanStr(string(s)), vlib.LeanBool(s.IsRoutable()), vlib.LeanNat(tenths)))
	}
	f.Def("statusTable", "List (String × Bool × Nat)", vlib.LeanList(rows),
		"(status, EndpointStatus.IsRoutable, EndpointStatus.GetTrafficWeight in exact tenths); last row is a value outside the declared constants")
	f.Def("strategyNames", "List String", vlib.LeanStrList([]string{balancer.DefaultBalancerPriority, balancer.DefaultBalancerRoundRobin, balancer.DefaultBalancerLeastConnections}),
		"names under which balancer.NewFactory registers the three strategies")
	f.Write(ns)
}
