//go:build verif

// gen_routing renders Olla/Gen/Routing.lean: everything the C09 model takes from the
// compiled code rather than from a hand copy —
//   * the (action, reason) -> HTTP status table of ports.NewRoutingDecision, evaluated over
//     every constants.RoutingReason* x every ports.RoutingAction* (plus one value outside each);
//   * the reason / action / fallback / strategy / header-name constants by role;
//   * what routing.Factory.Create makes of every strategy name (incl. "" and an unknown name);
//   * the routing defaults of config.DefaultConfig().
package main

import (
	"github.com/thushan/olla/internal/adapter/registry/routing"
	"github.com/thushan/olla/internal/config"
	"github.com/thushan/olla/internal/core/constants"
	"github.com/thushan/olla/internal/core/ports"
	"github.com/thushan/olla/internal/zz_verif/vlib"
)

type named struct{ lean, val string }

func main() {
	const ns = "Olla.Gen.Routing"
	f := vlib.NewLeanFile(ns, "gen_routing")

	reasons := []named{
		{"reasonModelFound", constants.RoutingReasonModelFound},
		{"reasonModelFoundNoRefresh", constants.RoutingReasonModelFoundNoRefresh},
		{"reasonModelNotFound", constants.RoutingReasonModelNotFound},
		{"reasonModelNotFoundFallback", constants.RoutingReasonModelNotFoundFallback},
		{"reasonNoHealthyAfterDiscovery", constants.RoutingReasonNoHealthyAfterDiscovery},
		{"reasonModelUnavailable", constants.RoutingReasonModelUnavailable},
		{"reasonModelUnavailableNoFallback", constants.RoutingReasonModelUnavailableNoFallback},
		{"reasonModelUnavailableCompatibleOnly", constants.RoutingReasonModelUnavailableCompatibleOnly},
		{"reasonModelUnavailableNoRefresh", constants.RoutingReasonModelUnavailableNoRefresh},
		{"reasonModelUnavailableAfterDiscovery", constants.RoutingReasonModelUnavailableAfterDiscovery},
		{"reasonAllHealthyFallback", constants.RoutingReasonAllHealthyFallback},
		{"reasonAllHealthyAfterDiscovery", constants.RoutingReasonAllHealthyAfterDiscovery},
		{"reasonDiscoveryFailedNoFallback", constants.RoutingReasonDiscoveryFailedNoFallback},
		{"reasonDiscoveryFailedCompatibleOnly", constants.RoutingReasonDiscoveryFailedCompatibleOnly},
		{"reasonDiscoveryFailedAllFallback", constants.RoutingReasonDiscoveryFailedAllFallback},
		{"reasonDiscoveryErrorFallback", constants.RoutingReasonDiscoveryErrorFallback},
		{"reasonDiscoveryError", constants.RoutingReasonDiscoveryError},
	}
	actions := []named{
		{"actionRouted", ports.RoutingActionRouted},
		{"actionFallback", ports.RoutingActionFallback},
		{"actionRejected", ports.RoutingActionRejected},
	}
	for _, r := range reasons {
		f.Def(r.lean, "String", vlib.LeanStr(r.val), "")
	}
	for _, a := range actions {
		f.Def(a.lean, "String", vlib.LeanStr(a.val), "")
	}
	var rs []string
	for _, r := range reasons {
		rs = append(rs, r.val)
	}
	f.Def("reasons", "List String", vlib.LeanStrList(rs), "every constants.RoutingReason*")

	// the status table: NewRoutingDecision over actions x reasons, plus out-of-range probes
	var rows []string
	as := []string{ports.RoutingActionRouted, ports.RoutingActionFallback, ports.RoutingActionRejected, "zz-unknown-action"}
	for _, a := range as {
		for _, r := range append(append([]string{}, rs...), "zz-unknown-reason", "") {
			d := ports.NewRoutingDecision("s", a, r)
			ok := d.Strategy == "s" && d.Action == a && d.Reason == r
			st := uint64(0)
			if d.StatusCode > 0 {
				st = uint64(d.StatusCode)
			}
			if !ok {
				st = 999999 // decision does not echo its inputs: make every side condition fail loudly
			}
			rows = append(rows, vlib.LeanTuple(vlib.LeanStr(a), vlib.LeanStr(r), vlib.LeanNat(st)))
		}
	}
	f.Def("statusTable", "List (String × String × Nat)", vlib.LeanList(rows),
		"(action, reason, ModelRoutingDecision.StatusCode) as ports.NewRoutingDecision computes it; the decision echoes strategy/action/reason unchanged (else 999999)")

	f.Def("fallbackNone", "String", vlib.LeanStr(constants.FallbackBehaviorNone), "")
	f.Def("fallbackCompatibleOnly", "String", vlib.LeanStr(constants.FallbackBehaviorCompatibleOnly), "")
	f.Def("fallbackAll", "String", vlib.LeanStr(constants.FallbackBehaviorAll), "")
	f.Def("strategyStrict", "String", vlib.LeanStr(routing.StrategyStrict), "")
	f.Def("strategyOptimistic", "String", vlib.LeanStr(routing.StrategyOptimistic), "")
	f.Def("strategyDiscovery", "String", vlib.LeanStr(routing.StrategyDiscovery), "")

	// what the factory makes of a configured type name
	fac := routing.NewFactory(vlib.QuietLogger())
	var ft []string
	for _, n := range []string{routing.StrategyStrict, routing.StrategyOptimistic, routing.StrategyDiscovery, "", "zz-unknown", "STRICT", "Optimistic"} {
		s, err := fac.Create(config.ModelRoutingStrategy{Type: n, Options: config.ModelRoutingStrategyOptions{FallbackBehavior: constants.FallbackBehaviorNone}}, nil)
		got := "<error>"
		if err == nil && s != nil {
			got = s.Name()
		}
		ft = append(ft, vlib.LeanTuple(vlib.LeanStr(n), vlib.LeanStr(got)))
	}
	f.Def("factoryTable", "List (String × String)", vlib.LeanList(ft),
		"(configured routing_strategy.type, Name() of the strategy routing.Factory.Create returns)")

	f.Def("headerStrategy", "String", vlib.LeanStr(constants.HeaderXOllaRoutingStrategy), "")
	f.Def("headerDecision", "String", vlib.LeanStr(constants.HeaderXOllaRoutingDecision), "")
	f.Def("headerReason", "String", vlib.LeanStr(constants.HeaderXOllaRoutingReason), "")

	dc := config.DefaultConfig()
	f.Def("defaultStrategy", "String", vlib.LeanStr(dc.ModelRegistry.RoutingStrategy.Type), "config.DefaultConfig().ModelRegistry.RoutingStrategy.Type")
	f.Def("defaultFallback", "String", vlib.LeanStr(dc.ModelRegistry.RoutingStrategy.Options.FallbackBehavior), "")
	f.Def("defaultRefreshOnMiss", "Bool", vlib.LeanBool(dc.ModelRegistry.RoutingStrategy.Options.DiscoveryRefreshOnMiss), "")
	f.Write(ns)
}
