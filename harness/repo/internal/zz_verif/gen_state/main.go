//go:build verif

// gen_state renders Olla/Gen/State.lean: for each request-path function that a model treats as
// a function of its arguments alone, the package-level variables of its package that (a) the
// function can reach through calls inside the package and (b) some code of the package other
// than a var initialiser or func init can change (assignment, ++/--, address taken, method
// call or index-assignment on the variable). The list is a syntactic over-approximation read
// from the working tree's source with go/parser (cwd is the tree under check): methods are
// resolved by name, local shadowing by the parser's scope resolution.
//
// The theorems about such a function quantify over single calls; they say something about
// every call of a running process only if no call can influence a later one. An obligation in
// Olla/Props pins each list, so state that appears on such a path has to be looked at.
package main

import (
	"fmt"
	"go/ast"
	"go/build"
	"go/parser"
	"go/token"
	"os"
	"path/filepath"
	"sort"
	"strings"

	"github.com/thushan/olla/internal/zz_verif/vlib"
)

type root struct {
	Key string // name used in Lean
	Dir string
	Fn  string // function or method name
}

var roots = []root{
	{"core.CopyHeaders", "internal/adapter/proxy/core", "CopyHeaders"},
	{"core.SetResponseHeaders", "internal/adapter/proxy/core", "SetResponseHeaders"},
	{"common.BuildTargetURL", "internal/adapter/proxy/common", "BuildTargetURL"},
	{"util.ResolveURLPath", "internal/util", "ResolveURLPath"},
	{"util.StripPrefix", "internal/util", "StripPrefix"},
	{"util.GetClientIP", "internal/util", "GetClientIP"},
	{"anthropic.TransformRequest", "internal/adapter/translator/anthropic", "TransformRequest"},
	{"anthropic.TransformResponse", "internal/adapter/translator/anthropic", "TransformResponse"},
	{"anthropic.TransformStreamingResponse", "internal/adapter/translator/anthropic", "TransformStreamingResponse"},
	{"inspector.extractModelName", "internal/adapter/inspector", "extractModelName"},
	{"core.ExecuteWithRetry", "internal/adapter/proxy/core", "ExecuteWithRetry"},
	{"sherpa.ProxyRequestToEndpoints", "internal/adapter/proxy/sherpa", "ProxyRequestToEndpoints"},
	{"olla.ProxyRequestToEndpoints", "internal/adapter/proxy/olla", "ProxyRequestToEndpoints"},
	{"balancer.Select", "internal/adapter/balancer", "Select"},
	{"security.Validate", "internal/adapter/security", "Validate"},
	{"health.Check", "internal/adapter/health", "Check"},
	{"unifier.UnifyModels", "internal/adapter/unifier", "UnifyModels"},
	{"registry.GetRoutableEndpointsForModel", "internal/adapter/registry", "GetRoutableEndpointsForModel"},
	{"handlers.proxyHandler", "internal/app/handlers", "proxyHandler"},
	{"handlers.translationHandler", "internal/app/handlers", "translationHandler"},
}

type pkg struct {
	vars    map[string]bool
	funcs   map[string][]*ast.FuncDecl // by bare name (functions and methods)
	mutable map[string]bool
	pools   map[string]bool         // package-level sync.Pool / pool.Pool values: recycling of scratch memory, not a memory of requests
	top     map[*ast.ValueSpec]bool // package-level var specs
	skip    map[*ast.Ident]bool     // field / method names and composite-literal keys: not variable references
}

func load(dir string) (*pkg, error) {
	fset := token.NewFileSet()
	ents, err := os.ReadDir(dir)
	if err != nil {
		return nil, err
	}
	ctx := build.Default
	ctx.BuildTags = nil // the production build, not the verif one
	p := &pkg{vars: map[string]bool{}, funcs: map[string][]*ast.FuncDecl{}, mutable: map[string]bool{}, pools: map[string]bool{},
		top: map[*ast.ValueSpec]bool{}, skip: map[*ast.Ident]bool{}}
	var files []*ast.File
	for _, e := range ents {
		n := e.Name()
		if e.IsDir() || !strings.HasSuffix(n, ".go") || strings.HasSuffix(n, "_test.go") {
			continue
		}
		if ok, _ := ctx.MatchFile(dir, n); !ok {
			continue
		}
		f, err := parser.ParseFile(fset, filepath.Join(dir, n), nil, 0)
		if err != nil {
			return nil, err
		}
		files = append(files, f)
	}
	for _, f := range files {
		for _, d := range f.Decls {
			switch d := d.(type) {
			case *ast.GenDecl:
				if d.Tok == token.VAR {
					for _, s := range d.Specs {
						p.top[s.(*ast.ValueSpec)] = true
						if isPool(s.(*ast.ValueSpec)) {
							for _, id := range s.(*ast.ValueSpec).Names {
								p.pools[id.Name] = true
							}
						}
						for _, id := range s.(*ast.ValueSpec).Names {
							if id.Name != "_" {
								p.vars[id.Name] = true
							}
						}
					}
				}
			case *ast.FuncDecl:
				p.funcs[d.Name.Name] = append(p.funcs[d.Name.Name], d)
			}
		}
	}
	for _, f := range files {
		ast.Inspect(f, func(n ast.Node) bool {
			switch n := n.(type) {
			case *ast.SelectorExpr:
				p.skip[n.Sel] = true
			case *ast.KeyValueExpr:
				if id, ok := n.Key.(*ast.Ident); ok {
					p.skip[id] = true
				}
			}
			return true
		})
	}
	// which package-level variables can change after initialisation
	for _, f := range files {
		for _, d := range f.Decls {
			fd, ok := d.(*ast.FuncDecl)
			if !ok || fd.Body == nil || (fd.Recv == nil && fd.Name.Name == "init") {
				continue
			}
			ast.Inspect(fd.Body, func(n ast.Node) bool {
				switch n := n.(type) {
				case *ast.AssignStmt:
					if n.Tok != token.DEFINE {
						for _, l := range n.Lhs {
							p.mark(l)
						}
					}
				case *ast.IncDecStmt:
					p.mark(n.X)
				case *ast.UnaryExpr:
					if n.Op == token.AND {
						p.mark(n.X)
					}
				case *ast.CallExpr:
					if sel, ok := n.Fun.(*ast.SelectorExpr); ok {
						p.mark(sel.X) // v.Store(..), v.Lock(), v.m[...].Add(..)
					}
				case *ast.RangeStmt:
					if n.Tok == token.ASSIGN {
						p.mark(n.Key)
						p.mark(n.Value)
					}
				}
				return true
			})
		}
	}
	return p, nil
}

// isPool: the variable is declared as, or initialised with, a sync.Pool or one of the project's pool.* wrappers.
// A pool hands scratch memory from one request to a later one by design; whether what comes out of it is clean
// is something the concurrent differential runs look at (C01), not something this tie can judge.
func isPool(vs *ast.ValueSpec) bool {
	found := false
	look := func(n ast.Node) bool {
		if sel, ok := n.(*ast.SelectorExpr); ok {
			if x, ok := sel.X.(*ast.Ident); ok && ((x.Name == "sync" && sel.Sel.Name == "Pool") || x.Name == "pool") {
				found = true
			}
		}
		return !found
	}
	if vs.Type != nil {
		ast.Inspect(vs.Type, look)
	}
	for _, v := range vs.Values {
		ast.Inspect(v, look)
		// var x = newSomethingPool(): a constructor of the same package whose result type is a pool
		if call, ok := v.(*ast.CallExpr); ok {
			if id, ok := call.Fun.(*ast.Ident); ok && id.Obj != nil {
				if fd, ok := id.Obj.Decl.(*ast.FuncDecl); ok && fd.Type.Results != nil {
					for _, r := range fd.Type.Results.List {
						ast.Inspect(r.Type, look)
					}
				}
			}
		}
	}
	return found
}

// global reports the package-level variable an identifier denotes, if any
func (p *pkg) global(id *ast.Ident) (string, bool) {
	if !p.vars[id.Name] || p.skip[id] {
		return "", false
	}
	if id.Obj != nil { // resolved inside the file: package-level only if declared by a top-level var spec
		vs, ok := id.Obj.Decl.(*ast.ValueSpec)
		return id.Name, ok && p.top[vs]
	}
	return id.Name, true // unresolved in this file: declared in another file of the package
}

func (p *pkg) mark(e ast.Expr) {
	for e != nil {
		switch x := e.(type) {
		case *ast.Ident:
			if g, ok := p.global(x); ok {
				p.mutable[g] = true
			}
			return
		case *ast.IndexExpr:
			e = x.X
		case *ast.SelectorExpr:
			e = x.X
		case *ast.StarExpr:
			e = x.X
		case *ast.ParenExpr:
			e = x.X
		case *ast.SliceExpr:
			e = x.X
		default:
			return
		}
	}
}

// reach collects the package-level variables referenced by fn and everything it can call inside the package
func (p *pkg) reach(fn string) (vars []string, found bool) {
	seen := map[*ast.FuncDecl]bool{}
	got := map[string]bool{}
	var queue []*ast.FuncDecl
	push := func(name string) {
		for _, d := range p.funcs[name] {
			if !seen[d] {
				seen[d] = true
				queue = append(queue, d)
			}
		}
	}
	push(fn)
	found = len(queue) > 0
	for len(queue) > 0 {
		d := queue[0]
		queue = queue[1:]
		if d.Body == nil {
			continue
		}
		ast.Inspect(d.Body, func(n ast.Node) bool {
			switch n := n.(type) {
			case *ast.Ident:
				if g, ok := p.global(n); ok {
					got[g] = true
				}
				if _, ok := p.funcs[n.Name]; ok && !p.skip[n] && (n.Obj == nil || n.Obj.Kind == ast.Fun) {
					push(n.Name) // called or passed as a value
				}
			case *ast.SelectorExpr:
				if _, ok := p.funcs[n.Sel.Name]; ok {
					push(n.Sel.Name) // method, resolved by name
				}
			}
			return true
		})
	}
	for g := range got {
		vars = append(vars, g)
	}
	sort.Strings(vars)
	return vars, found
}

func main() {
	const ns = "Olla.Gen.State"
	f := vlib.NewLeanFile(ns, "gen_state")
	var rows []string
	cache := map[string]*pkg{}
	for _, r := range roots {
		p := cache[r.Dir]
		if p == nil {
			var err error
			p, err = load(r.Dir)
			if err != nil {
				fmt.Fprintln(os.Stderr, "gen_state:", err)
				os.Exit(1)
			}
			cache[r.Dir] = p
		}
		vars, found := p.reach(r.Fn)
		var mut []string
		for _, v := range vars {
			if p.mutable[v] && !p.pools[v] {
				mut = append(mut, vlib.LeanStr(v))
			}
		}
		rows = append(rows, fmt.Sprintf("(%s, %v, %s)", vlib.LeanStr(r.Key), found, vlib.LeanList(mut)))
	}
	f.Def("mutableStateReached", "List (String × Bool × List String)", vlib.LeanList(rows),
		"(function, whether it was found in the source, package-level variables it can reach that the package changes after initialisation)")
	f.Write(ns)
}
