//go:build verif

// c06: correspondence harness for the three balancers (property C06, and the
// "every balancer returns a member of its input" clause of C03). Drives the
// real selectors obtained from balancer.NewFactory with a real stats.Collector.
package main

import (
	"context"
	"fmt"
	"runtime"
	"sort"
	"sync"

	"github.com/thushan/olla/internal/adapter/balancer"
	"github.com/thushan/olla/internal/adapter/stats"
	"github.com/thushan/olla/internal/core/domain"
	"github.com/thushan/olla/internal/zz_verif/vlib"
)

var statuses = []domain.EndpointStatus{domain.StatusHealthy, domain.StatusBusy, domain.StatusOffline,
	domain.StatusWarming, domain.StatusUnhealthy, domain.StatusUnknown}

type ep struct {
	ID     int    `json:"id"`
	Prio   int    `json:"prio"`
	Status string `json:"status"`
	Conns  int    `json:"conns"`
}

func mk(eps []ep) ([]*domain.Endpoint, map[*domain.Endpoint]int) {
	out := make([]*domain.Endpoint, len(eps))
	ids := map[*domain.Endpoint]int{}
	for i, e := range eps {
		// URL spellings a configuration may use: bare authority, trailing slash, base path with and without trailing slash
		u := fmt.Sprintf([]string{"http://h%d:1", "http://h%d:1/", "http://h%d:1/engines/llama.cpp/", "http://h%d:1/v1"}[(e.ID+len(eps))%4], e.ID)
		out[i] = &domain.Endpoint{Name: fmt.Sprintf("e%d", e.ID), URLString: u, Priority: e.Prio, Status: domain.EndpointStatus(e.Status)}
		ids[out[i]] = e.ID
	}
	return out, ids
}

func newSel(name string) (domain.EndpointSelector, *stats.Collector) {
	col := stats.NewCollector(vlib.QuietLogger())
	f := balancer.NewFactory(col)
	s, err := f.Create(name)
	if err != nil {
		panic(err)
	}
	return s, col
}

func idOf(ids map[*domain.Endpoint]int, e *domain.Endpoint, err error) int {
	if err != nil || e == nil {
		return -1
	}
	if id, ok := ids[e]; ok {
		return id
	}
	return -2 // not a member of the input list
}

// ---- priority: D draws on one list; which ids were ever picked
func casePrio(c *vlib.Cases, eps []ep, draws int) {
	sel, _ := newSel(balancer.DefaultBalancerPriority)
	l, ids := mk(eps)
	seen := map[int]bool{}
	for i := 0; i < draws; i++ {
		e, err := sel.Select(context.Background(), l)
		seen[idOf(ids, e, err)] = true
	}
	picked := []int{}
	for k := range seen {
		picked = append(picked, k)
	}
	sort.Ints(picked)
	c.Emit(map[string]any{"kind": "prio", "eps": eps, "draws": draws, "impl": map[string]any{"picked": picked}})
}

// ---- priority, one selector over a history of different lists (the proxy keeps one selector for its life time and
// the candidate list changes with every health transition): D draws on each list in turn; which ids each list yielded
func casePrioSeq(c *vlib.Cases, lists [][]ep, draws int) {
	sel, _ := newSel(balancer.DefaultBalancerPriority)
	var picked [][]int
	for _, eps := range lists {
		l, ids := mk(eps)
		seen := map[int]bool{}
		for i := 0; i < draws; i++ {
			e, err := sel.Select(context.Background(), l)
			seen[idOf(ids, e, err)] = true
		}
		p := []int{}
		for k := range seen {
			p = append(p, k)
		}
		sort.Ints(p)
		picked = append(picked, p)
	}
	c.Emit(map[string]any{"kind": "prioseq", "lists": lists, "draws": draws, "impl": map[string]any{"picked": picked}})
}

// a list that differs from eps in one respect: its order, one status, one priority, or one entry more or less
func variantOf(r *vlib.Rng, eps []ep) []ep {
	out := append([]ep(nil), eps...)
	if len(out) == 0 {
		return genEps(r, 1+r.Intn(3), 3, 0, true)
	}
	switch r.Intn(6) {
	case 0, 1: // the same entries in another order (ids move with them)
		for i := len(out) - 1; i > 0; i-- {
			j := r.Intn(i + 1)
			out[i], out[j] = out[j], out[i]
		}
	case 2: // rotated by one
		out = append(out[1:], out[0])
	case 3:
		out[r.Intn(len(out))].Status = string(vlib.Pick(r, statuses))
	case 4:
		out[r.Intn(len(out))].Prio = r.Intn(4)
	default:
		if len(out) > 1 && r.Bool() {
			out = out[:len(out)-1]
		} else {
			out = append(out, ep{ID: len(out) + 10, Prio: r.Intn(4), Status: string(vlib.Pick(r, statuses))})
		}
	}
	return out
}

// ---- round robin: one selector, a sequence of lists (mostly the same list)
func caseRR(c *vlib.Cases, lists [][]ep) {
	sel, _ := newSel(balancer.DefaultBalancerRoundRobin)
	seq := []int{}
	for _, eps := range lists {
		l, ids := mk(eps)
		e, err := sel.Select(context.Background(), l)
		seq = append(seq, idOf(ids, e, err))
	}
	c.Emit(map[string]any{"kind": "rr", "lists": lists, "impl": map[string]any{"seq": seq}})
}

// ---- round robin, concurrent: g goroutines share one selector and one stable list
func caseRRConc(c *vlib.Cases, eps []ep, g, per int) {
	sel, _ := newSel(balancer.DefaultBalancerRoundRobin)
	l, ids := mk(eps)
	var mu sync.Mutex
	counts := map[int]int{}
	var wg sync.WaitGroup
	for i := 0; i < g; i++ {
		wg.Add(1)
		go func() {
			defer wg.Done()
			local := map[int]int{}
			for j := 0; j < per; j++ {
				e, err := sel.Select(context.Background(), l)
				local[idOf(ids, e, err)]++
			}
			mu.Lock()
			for k, v := range local {
				counts[k] += v
			}
			mu.Unlock()
		}()
	}
	wg.Wait()
	var rows [][2]int
	for k, v := range counts {
		rows = append(rows, [2]int{k, v})
	}
	sort.Slice(rows, func(i, j int) bool { return rows[i][0] < rows[j][0] })
	c.Emit(map[string]any{"kind": "rrconc", "eps": eps, "goroutines": g, "per": per, "impl": map[string]any{"counts": rows}})
}

// ---- least connections: ops inc/dec/sel on one selector + collector
type lcOp struct {
	Op string `json:"op"`
	ID int    `json:"id"`
}

func caseLC(c *vlib.Cases, eps []ep, ops []lcOp) {
	sel, col := newSel(balancer.DefaultBalancerLeastConnections)
	l, ids := mk(eps)
	byID := map[int]*domain.Endpoint{}
	for e, id := range ids {
		byID[id] = e
	}
	for _, e := range eps {
		for i := 0; i < e.Conns; i++ {
			sel.IncrementConnections(byID[e.ID])
		}
	}
	type obs struct {
		Sel   int      `json:"sel"`
		Conns [][2]int `json:"conns"` // gauges as the collector reports them under the endpoint's URLString
		Truth [][2]int `json:"truth"` // in-flight counts as the harness caused them (Increment minus Decrement, never below 0)
	}
	truth := map[int]int{}
	for _, e := range eps {
		truth[e.ID] = e.Conns
	}
	var out []obs
	for _, o := range ops {
		switch o.Op {
		case "inc":
			sel.IncrementConnections(byID[o.ID])
			truth[o.ID]++
		case "dec":
			sel.DecrementConnections(byID[o.ID])
			if truth[o.ID] > 0 {
				truth[o.ID]--
			}
		case "sel":
			e, err := sel.Select(context.Background(), l)
			st := col.GetConnectionStats()
			var cs [][2]int
			for _, x := range eps {
				cs = append(cs, [2]int{x.ID, int(st[byID[x.ID].URLString])})
			}
			var ts [][2]int
			for _, x := range eps {
				ts = append(ts, [2]int{x.ID, truth[x.ID]})
			}
			out = append(out, obs{Sel: idOf(ids, e, err), Conns: cs, Truth: ts})
		}
	}
	c.Emit(map[string]any{"kind": "lc", "eps": eps, "ops": ops, "impl": map[string]any{"obs": out}})
}

// ---- least connections under concurrent readers: goroutines keep calling Select while the main goroutine opens a
// connection on one endpoint, asks (the answer must be an endpoint with fewer connections in flight — the
// main goroutine's own Increment has returned, so the truth is known), and closes it again.
func caseLCConc(c *vlib.Cases, n, readers, rounds int) {
	sel, _ := newSel(balancer.DefaultBalancerLeastConnections)
	var eps []ep
	for i := 0; i < n; i++ {
		eps = append(eps, ep{ID: i, Prio: 1, Status: "healthy"})
	}
	l, ids := mk(eps)
	stop := make(chan struct{})
	var wg sync.WaitGroup
	for g := 0; g < readers; g++ {
		wg.Add(1)
		go func() {
			defer wg.Done()
			for {
				select {
				case <-stop:
					return
				default:
					sel.Select(context.Background(), l)
				}
			}
		}()
	}
	wrong, first := 0, -1
	for rd := 0; rd < rounds; rd++ {
		busy := l[rd%n]
		sel.IncrementConnections(busy)
		e, err := sel.Select(context.Background(), l)
		if id := idOf(ids, e, err); id < 0 || e == busy {
			wrong++
			if first < 0 {
				first = rd
			}
		}
		sel.DecrementConnections(busy)
	}
	close(stop)
	wg.Wait()
	c.Emit(map[string]any{"kind": "lcconc", "n": n, "readers": readers, "rounds": rounds, "impl": map[string]any{"wrong": wrong, "first": first}})
}

func genEps(r *vlib.Rng, n, maxPrio, maxConns int, uniqueIDs bool) []ep {
	eps := make([]ep, n)
	for i := range eps {
		eps[i] = ep{ID: i, Prio: r.Intn(maxPrio + 1), Status: string(vlib.Pick(r, statuses)), Conns: r.Intn(maxConns + 1)}
		if r.Chance(1, 40) {
			eps[i].Prio = -1 - r.Intn(3) // priorities are plain ints in config
		}
		if r.Chance(1, 5) { // the whole range configurations use: the default 100, 0, hundreds, thousands, and their neighbours
			eps[i].Prio = vlib.Pick(r, []int{0, 1, 50, 99, 100, 101, 199, 200, 300, 1000, 1001, 65535, 1 << 20})
		}
	}
	return eps
}

// enumerate all lists of length n over (prio 0..p) x statuses, calling f
func enumLists(n, p int, f func([]ep)) {
	cur := make([]ep, n)
	var rec func(i int)
	rec = func(i int) {
		if i == n {
			cp := make([]ep, n)
			copy(cp, cur)
			f(cp)
			return
		}
		for pr := 0; pr <= p; pr++ {
			for _, s := range statuses {
				cur[i] = ep{ID: i, Prio: pr, Status: string(s)}
				rec(i + 1)
			}
		}
	}
	rec(0)
}

func main() {
	tier := vlib.Tier()
	r := vlib.NewRng(vlib.Seed())
	c := vlib.OpenCases("cases.jsonl")
	thorough := tier == "thorough"
	draws := 1500

	// corner cases first
	casePrio(c, []ep{}, 3)
	caseRR(c, [][]ep{{}, {}})
	caseLC(c, []ep{}, []lcOp{{Op: "sel"}})
	casePrio(c, []ep{{ID: 0, Prio: 1, Status: "offline"}, {ID: 1, Prio: 0, Status: "unknown"}}, 3)

	// priority: exhaustive over n<=2 (prio 0..1), n=3 (prio 0..1) in thorough; random n<=5 prio 0..3
	maxN := 2
	if thorough {
		maxN = 3
	}
	for n := 1; n <= maxN; n++ {
		enumLists(n, 1, func(l []ep) { casePrio(c, l, draws); c.Count("prio.exhaustive") })
	}
	nr := 300
	if thorough {
		nr = 6000
	}
	for i := 0; i < nr; i++ {
		casePrio(c, genEps(r, 1+r.Intn(5), 3, 0, true), draws)
		c.Count("prio.random")
	}

	// priority: one selector, histories of related lists (A, a variant of A, A again, ...)
	nps := 150
	if thorough {
		nps = 3000
	}
	for i := 0; i < nps; i++ {
		a := genEps(r, 2+r.Intn(4), 3, 0, true)
		lists := [][]ep{a}
		for k := 1 + r.Intn(4); k > 0; k-- {
			if r.Chance(1, 3) {
				lists = append(lists, a)
			} else {
				lists = append(lists, variantOf(r, lists[len(lists)-1]))
			}
		}
		casePrioSeq(c, lists, 400)
		c.Count("prio.history")
	}

	// round robin: stable list, k rounds (+ occasional list change mid-sequence)
	nrr := 400
	if thorough {
		nrr = 8000
	}
	for i := 0; i < nrr; i++ {
		eps := genEps(r, 1+r.Intn(5), 3, 0, true)
		k := 1 + r.Intn(4)
		var lists [][]ep
		// n = number of routable is decided by the model; run len(eps)*k calls plus a ragged tail
		calls := len(eps)*k + r.Intn(3)
		for j := 0; j < calls; j++ {
			if r.Chance(1, 25) {
				eps = genEps(r, 1+r.Intn(5), 3, 0, true)
				c.Count("rr.listchange")
			}
			lists = append(lists, eps)
		}
		caseRR(c, lists)
		c.Count("rr.seq")
	}
	// exhaustive status vectors n<=3 for rr with 2 rounds
	enumLists(3, 0, func(l []ep) {
		var lists [][]ep
		for j := 0; j < 7; j++ {
			lists = append(lists, l)
		}
		caseRR(c, lists)
		c.Count("rr.exhaustive")
	})
	ncc := 6
	if thorough {
		ncc = 60
	}
	for i := 0; i < ncc; i++ {
		eps := genEps(r, 1+r.Intn(5), 3, 0, true)
		n := 0
		for _, e := range eps {
			if domain.EndpointStatus(e.Status).IsRoutable() {
				n++
			}
		}
		if n == 0 {
			eps[0].Status = "healthy"
			n = 1
		}
		k := 50 + r.Intn(200)
		caseRRConc(c, eps, 16, n*k)
		c.Count("rrconc")
	}

	// least connections: random op sequences; connection vectors 0..3
	nlc := 600
	if thorough {
		nlc = 20000
	}
	for i := 0; i < nlc; i++ {
		eps := genEps(r, 1+r.Intn(5), 3, 3, true)
		var ops []lcOp
		m := 1 + r.Intn(12)
		for j := 0; j < m; j++ {
			switch r.Intn(4) {
			case 0:
				ops = append(ops, lcOp{Op: "inc", ID: r.Intn(len(eps))})
			case 1:
				ops = append(ops, lcOp{Op: "dec", ID: r.Intn(len(eps))})
			default:
				ops = append(ops, lcOp{Op: "sel"})
			}
		}
		ops = append(ops, lcOp{Op: "sel"})
		caseLC(c, eps, ops)
		c.Count("lc.ops")
	}
	// exhaustive: n<=3 statuses x conns 0..2
	enumLists(3, 0, func(l []ep) {
		for v := 0; v < 27; v++ {
			cp := make([]ep, len(l))
			copy(cp, l)
			cp[0].Conns, cp[1].Conns, cp[2].Conns = v%3, (v/3)%3, v/9
			caseLC(c, cp, []lcOp{{Op: "sel"}})
		}
		c.Count("lc.exhaustive")
	})
	lcRounds := 100000
	if thorough {
		lcRounds = 600000
	}
	for _, n := range []int{2, 3} {
		caseLCConc(c, n, 4, lcRounds)
		caseLCConc(c, n, 2*runtime.GOMAXPROCS(0), lcRounds/2)
		c.Count("lcconc")
	}
	c.Close(map[string]any{"exhaustive": true,
		"exhaustive_note": "all status vectors for lists of n<=3 (priority: n<=2 quick / n<=3 thorough with priorities 0..1; round-robin and least-connections n=3, connection vectors 0..2); larger lists sampled"})
}
