//go:build verif

// Package scen runs one "retry scenario": a fresh production stack in front of up to three
// scripted backends with distinct priorities, one client request, and a full observation
// (client transcript, backends contacted in order, repository statuses, gauges and counters).
// Shared by the C02, C04, C19 (and C03/C05) harnesses.
package scen

import (
	"crypto/sha256"
	"context"
	"encoding/hex"
	"fmt"
	"sort"
	"strings"
	"time"

	"github.com/thushan/olla/internal/adapter/proxy/olla"
	"github.com/thushan/olla/internal/config"
	"github.com/thushan/olla/internal/core/domain"
	"github.com/thushan/olla/internal/zz_verif/stack"
	"github.com/thushan/olla/internal/zz_verif/vlib"
)

// Fault kinds. "refuse" and "open" (engine circuit breaker pre-opened) are set up outside the backend script.
var PreKinds = []string{"refuse", "reset0", "close0", "garbage", "dnsfail"}

// UnresolvableHost is a name under the reserved .invalid TLD: the lookup fails (the sandbox has no resolver,
// a real deployment gets NXDOMAIN), i.e. the endpoint is unreachable before any connection exists.
const UnresolvableHost = "olla-verif-unresolvable.invalid"

var PostKinds = []string{"hdr-reset", "hdr-close", "body-reset", "body-close", "shortcl", "truncchunk"}

type EPSpec struct {
	Name     string          `json:"name"`
	Prio     int             `json:"prio"`
	Status   string          `json:"status,omitempty"`    // initial repository status override ("" = healthy)
	Open     bool            `json:"open,omitempty"`      // engine circuit breaker pre-opened by a request history
	HalfOpen bool            `json:"half_open,omitempty"` // olla engine: breaker opened by a request history, then its timeout elapsed: the request is the half-open probe
	PreFail  int             `json:"prefail,omitempty"`   // olla engine: this many earlier failures recorded by the endpoint's breaker (below its threshold)
	Beh      stack.Behaviour `json:"beh"`
}

type Scenario struct {
	Engine           string   `json:"engine"`
	Balancer         string   `json:"balancer"`
	Profile          string   `json:"profile"`
	EPs              []EPSpec `json:"eps"`
	Method           string   `json:"method"`
	Path             string   `json:"path"`
	ReqBody          string   `json:"req_body"`
	Clients          int      `json:"clients,omitempty"`            // concurrent identical clients (default 1)
	Followup         bool     `json:"followup,omitempty"`           // after the request: every backend works again, one more request is sent
	ReadTimeoutMs    int      `json:"read_timeout_ms,omitempty"`    // proxy.read_timeout for this stack (default: product default)
	Vary             uint64   `json:"vary,omitempty"`               // seed for settings no property mentions (stack.Opts.Vary)
	ReqPad           int      `json:"req_pad,omitempty"`            // the request document is padded to this many bytes with a "pad" member (uploads above the inspector's 1 MiB)
	ReqChunked       bool     `json:"req_chunked,omitempty"`        // the client sends the body chunked, without a Content-Length
	StreamBufferSize int      `json:"stream_buffer_size,omitempty"` // proxy.stream_buffer_size (default: product default, 8 KiB; 16-64 KiB is what the documentation recommends for the olla engine)
}

type ClientObs struct {
	Err      string      `json:"err"`
	Status   int         `json:"status"`
	Headers  [][2]string `json:"headers"` // end-to-end headers only, sorted
	BodyHex  string      `json:"body_hex"`
	BodyLen  int         `json:"body_len"`
	Complete bool        `json:"complete"`
	OllaHdrs [][2]string `json:"olla_headers"`
	CT       string      `json:"content_type"`
	Ms       int64       `json:"ms"`
	Interims []string    `json:"interims,omitempty"` // backends whose interim (1xx) responses reached the client, in order
}

type Obs struct {
	Clients      []ClientObs         `json:"clients"`
	Order        []string            `json:"order"`    // backends contacted, in arrival order
	Attempts     map[string]int      `json:"attempts"` // per backend
	Wrote        map[string]int      `json:"wrote"`    // response body bytes put on the wire per backend
	Statuses     map[string]string   `json:"statuses"` // repository status after the request
	Conns        map[string]int64    `json:"conns"`    // collector gauges at quiescence
	Global       [3]int64            `json:"global"`   // collector total, ok, failed
	Engine       [3]int64            `json:"engine"`   // engine-level total, ok, failed
	PerEP        map[string][3]int64 `json:"per_ep"`   // collector per endpoint total, ok, failed
	SameReq      bool                `json:"same_req"` // every backend saw the same method/path/query/body
	StartErr     string              `json:"start_err,omitempty"`
	FollowOrder  []string            `json:"follow_order,omitempty"`  // backends contacted by the follow-up request
	FollowStatus int                 `json:"follow_status,omitempty"` // client status of the follow-up request
}

func hexOrSha(b []byte) string {
	if len(b) <= 1<<17 {
		return hex.EncodeToString(b)
	}
	return "len:" + fmt.Sprint(len(b))
}

func observeClient(r *stack.Resp) ClientObs {
	o := ClientObs{Err: r.Err, Status: r.Status, Headers: stack.EndToEnd(r.Header), BodyHex: hexOrSha(r.Body), BodyLen: len(r.Body), Complete: r.Complete, Ms: r.Ms, Interims: r.Interims}
	if ct := r.Header["Content-Type"]; len(ct) > 0 {
		o.CT = ct[0]
	}
	for k, vs := range r.Header {
		if strings.HasPrefix(k, "X-Olla-") || k == "X-Served-By" || k == "Via" {
			for _, v := range vs {
				if k == "X-Olla-Request-Id" || k == "X-Olla-Response-Time" {
					v = "*"
				}
				o.OllaHdrs = append(o.OllaHdrs, [2]string{k, v})
			}
		}
	}
	sort.Slice(o.OllaHdrs, func(i, j int) bool { return o.OllaHdrs[i][0]+o.OllaHdrs[i][1] < o.OllaHdrs[j][0]+o.OllaHdrs[j][1] })
	return o
}

// OpenBreaker drives the olla engine's per-endpoint breaker open with a request history:
// the backend answers with an immediate close (non-connection error class) until the breaker trips.
// Returns the number of priming requests that reached the backend.
func openBreaker(s *stack.Stack, sc *Scenario, idx int, backends []*stack.Backend, limit int) int {
	// isolate the endpoint: everyone else not routable
	for j, e := range sc.EPs {
		if j != idx {
			s.SetStatus(e.Name, domain.StatusOffline)
		}
	}
	b := backends[idx]
	b.SetBehaviour(stack.Behaviour{Kind: "close0"})
	n := 0
	for i := 0; i < limit; i++ {
		before := b.Count()
		stack.Do(s.Addr, stack.Request("POST", "/olla/proxy/v1/chat/completions", s.Addr, [][2]string{{"Content-Type", "application/json"}}, []byte(`{"prime":true}`), false), 2*time.Second)
		s.SetStatus(sc.EPs[idx].Name, domain.StatusHealthy)
		if b.Count() == before {
			break // breaker refused to contact the backend: it is open
		}
		n++
	}
	b.Taken()
	for j, e := range sc.EPs {
		if j != idx {
			st := domain.StatusHealthy
			if e.Status != "" {
				st = domain.EndpointStatus(e.Status)
			}
			s.SetStatus(e.Name, st)
		}
	}
	return n
}

// Run executes the scenario on a fresh stack.
func Run(sc *Scenario) *Obs {
	obs := &Obs{Attempts: map[string]int{}, Wrote: map[string]int{}, PerEP: map[string][3]int64{}}
	backends := make([]*stack.Backend, len(sc.EPs))
	eps := make([]stack.EP, len(sc.EPs))
	for i, e := range sc.EPs {
		backends[i] = stack.NewBackend(e.Name)
		eps[i] = stack.EP{Name: e.Name, Type: "openai", Priority: e.Prio, Backend: backends[i]}
		if e.Beh.Kind == "dnsfail" {
			eps[i].Host = UnresolvableHost
		}
	}
	defer func() {
		for _, b := range backends {
			b.Close()
		}
	}()
	s, err := stack.Start(stack.Opts{Engine: sc.Engine, Balancer: sc.Balancer, Profile: sc.Profile, EPs: eps, Vary: sc.Vary, Mutate: func(c *config.Config) {
		if sc.ReadTimeoutMs > 0 {
			c.Proxy.ReadTimeout = time.Duration(sc.ReadTimeoutMs) * time.Millisecond
		}
		if sc.StreamBufferSize > 0 {
			c.Proxy.StreamBufferSize = sc.StreamBufferSize
		}
	}})
	if err != nil {
		obs.StartErr = err.Error()
		return obs
	}
	defer s.Stop()
	// stats baselines (priming requests must not count)
	for i, e := range sc.EPs {
		if e.Open || e.HalfOpen {
			openBreaker(s, sc, i, backends, 12)
			if e.HalfOpen {
				if svc, ok := s.Proxy.(*olla.Service); ok {
					olla.VerifRewindEndpointBreaker(svc, e.Name, 31*time.Second)
				}
			}
		} else if e.PreFail > 0 {
			openBreaker(s, sc, i, backends, e.PreFail)
		}
	}
	for i, e := range sc.EPs {
		bh := e.Beh
		if bh.Body == nil && bh.BodyHex != "" {
			bh.Body, _ = hex.DecodeString(bh.BodyHex)
		}
		if bh.Kind == "refuse" {
			backends[i].Refuse()
		} else {
			backends[i].SetBehaviour(bh)
		}
		st := domain.StatusHealthy
		if e.Status != "" {
			st = domain.EndpointStatus(e.Status)
		}
		s.SetStatus(e.Name, st)
	}
	g0 := s.Stats.GetProxyStats()
	e0, _ := s.Proxy.GetStats(context.Background())
	pe0 := s.Stats.GetEndpointStats()

	n := sc.Clients
	if n <= 0 {
		n = 1
	}
	reqBody := []byte(sc.ReqBody)
	if sc.ReqPad > len(reqBody)+12 && strings.HasSuffix(sc.ReqBody, "}") {
		reqBody = []byte(sc.ReqBody[:len(sc.ReqBody)-1] + `,"pad":"` + strings.Repeat("p", sc.ReqPad-len(sc.ReqBody)-9) + `"}`)
	}
	reqSum := sha256.Sum256(reqBody)
	raw := stack.Request(sc.Method, sc.Path, s.Addr, [][2]string{{"Content-Type", "application/json"}, {"X-Verif", "1"}}, reqBody, sc.ReqChunked)
	res := make([]*stack.Resp, n)
	done := make(chan int, n)
	for i := 0; i < n; i++ {
		// large uploads get time in proportion (a cold or loaded machine moves tens of MiB through two loopback hops slowly)
		to := 5*time.Second + time.Duration(len(reqBody)>>20)*3*time.Second
		go func(i int) { res[i] = stack.Do(s.Addr, raw, to); done <- i }(i)
	}
	for i := 0; i < n; i++ {
		<-done
	}
	for _, r := range res {
		obs.Clients = append(obs.Clients, observeClient(r))
	}
	// quiescence: gauges and counters settle after the client has its response
	stack.Quiesce(func() string {
		return fmt.Sprint(s.Stats.GetConnectionStats(), s.Stats.GetProxyStats())
	})
	var all []*stack.Seen
	for i, b := range backends {
		seen := b.Taken()
		obs.Attempts[sc.EPs[i].Name] = len(seen)
		for _, x := range seen {
			obs.Wrote[sc.EPs[i].Name] += x.Wrote
		}
		all = append(all, seen...)
	}
	sort.Slice(all, func(i, j int) bool { return all[i].Seq < all[j].Seq })
	obs.SameReq = true
	for _, x := range all {
		obs.Order = append(obs.Order, x.Backend)
		if x.Method != all[0].Method || x.Path != all[0].Path || x.RawQuery != all[0].RawQuery || x.BodySHA != all[0].BodySHA || x.BodySHA != hex.EncodeToString(reqSum[:]) || x.BodyLen != len(reqBody) {
			obs.SameReq = false
		}
	}
	obs.Statuses = s.Statuses()
	obs.Conns = map[string]int64{}
	cs := s.Stats.GetConnectionStats()
	for i, e := range sc.EPs {
		obs.Conns[e.Name] = cs[eps[i].URL()]
	}
	g1 := s.Stats.GetProxyStats()
	obs.Global = [3]int64{g1.TotalRequests - g0.TotalRequests, g1.SuccessfulRequests - g0.SuccessfulRequests, g1.FailedRequests - g0.FailedRequests}
	e1, _ := s.Proxy.GetStats(context.Background())
	obs.Engine = [3]int64{e1.TotalRequests - e0.TotalRequests, e1.SuccessfulRequests - e0.SuccessfulRequests, e1.FailedRequests - e0.FailedRequests}
	pe1 := s.Stats.GetEndpointStats()
	for i, e := range sc.EPs {
		a, b := pe0[eps[i].URL()], pe1[eps[i].URL()]
		obs.PerEP[e.Name] = [3]int64{b.TotalRequests - a.TotalRequests, b.SuccessfulRequests - a.SuccessfulRequests, b.FailedRequests - a.FailedRequests}
	}
	if sc.Followup {
		for i, e := range sc.EPs {
			backends[i].Listen()
			backends[i].SetBehaviour(OkBeh(e.Name, 200, 20, false, "application/json"))
		}
		fr := stack.Do(s.Addr, raw, 5*time.Second)
		obs.FollowStatus = fr.Status
		var fall []*stack.Seen
		for _, b := range backends {
			fall = append(fall, b.Taken()...)
		}
		sort.Slice(fall, func(i, j int) bool { return fall[i].Seq < fall[j].Seq })
		for _, x := range fall {
			obs.FollowOrder = append(obs.FollowOrder, x.Backend)
		}
	}
	return obs
}

// Body makes a deterministic response body of n bytes tagged with the backend name.
func Body(name string, n int) []byte {
	b := make([]byte, n)
	tag := []byte(name + ":")
	for i := range b {
		b[i] = tag[i%len(tag)]
	}
	if n > 0 {
		b[n-1] = '$'
	}
	return b
}

// OkBeh is a well-formed answer from backend `name`.
func OkBeh(name string, status, n int, chunked bool, ct string) stack.Behaviour {
	return stack.Behaviour{Kind: "ok", Status: status, Headers: [][2]string{{"Content-Type", ct}, {"X-Backend", name}}, Body: Body(name, n), BodyHex: hex.EncodeToString(Body(name, n)), Chunked: chunked}
}

func FaultBeh(name, kind string, n, k int, chunked bool, ct string) stack.Behaviour {
	b := OkBeh(name, 200, n, chunked, ct)
	b.Kind = kind
	b.K = k
	return b
}

// ParallelMap runs f over 0..n-1 on `workers` goroutines.
func ParallelMap(n, workers int, f func(i int)) {
	ch := make(chan int)
	done := make(chan bool)
	for w := 0; w < workers; w++ {
		go func() {
			for i := range ch {
				f(i)
			}
			done <- true
		}()
	}
	for i := 0; i < n; i++ {
		ch <- i
	}
	close(ch)
	for w := 0; w < workers; w++ {
		<-done
	}
}

var _ = vlib.Seed
