//go:build verif

package main

import (
	"fmt"
	"net/url"
	"time"

	"github.com/thushan/olla/internal/adapter/stats"
	"github.com/thushan/olla/internal/core/domain"
	"github.com/thushan/olla/internal/zz_verif/vlib"
)

// collectorHistory: ONE stats.Collector (the production constructor) fed the way an engine feeds it — an attempt is
// RecordConnection(+1), later RecordRequest(outcome) and RecordConnection(-1), each on a fresh copy of the endpoint as the
// repository hands them out (copies share the endpoint's parsed URL) — by many overlapping attempts on nEP endpoints over
// simulated hours: traffic concentrates on a few endpoints at a time and moves on, so endpoints fall silent for longer
// than the collector's TTL and come back; with more endpoints than the collector tracks (MaxTrackedEndpoints) its
// pruning path runs too.  Time passes by moving the collector's own time stamps (stats.VerifAge); the clean-up pass is
// run by RecordRequest itself when its interval has elapsed, and by stats.VerifCleanupPassAfter ("pass").
// After EVERY operation: the gauge of every endpoint with attempts in flight (or a non-zero gauge), the global counters,
// and — after a finished attempt — what the attempt's endpoint gained (of the same record: the difference; of a record
// started since: its numbers).
func collectorHistory(r *vlib.Rng, nEP, nOps int) map[string]any {
	return collectorHistoryF(r, nEP, nOps, false)
}

// busyTargets: how many endpoints have attempts in flight at the moment a clean-up pass runs — the collector's tracking
// limit (stats.MaxTrackedEndpoints) and its neighbours, powers of two around it, and fleets well above it.
func busyTargets(nEP int) []int {
	m := stats.MaxTrackedEndpoints
	out := []int{}
	for _, b := range []int{m - 1, m, m + 1, m + 1, m + 2, 63, 64, 65, 2*m - 1, 2 * m, 2*m + 1, 120, 127, 128, 129, 3 * m, 10 * m, nEP - 1, nEP, nEP} {
		if b >= 1 && b <= nEP {
			out = append(out, b)
		}
	}
	if len(out) == 0 {
		out = append(out, nEP)
	}
	return out
}

// permOf: a permutation of 0..n-1 drawn from r (Fisher-Yates).
func permOf(r *vlib.Rng, n int) []int {
	p := make([]int, n)
	for i := range p {
		p[i] = i
	}
	for i := n - 1; i > 0; i-- {
		j := r.Intn(i + 1)
		p[i], p[j] = p[j], p[i]
	}
	return p
}

// collectorHistoryF: as collectorHistory; with fleet, the history also contains BUSY-FLEET rounds (round 8): attempts are
// opened until exactly B endpoints have one in flight (B drawn from busyTargets: around and above the number of
// endpoints the collector tracks; some endpoints get several attempts, one endpoint sometimes a crowd of them), then
// the deployment's clock moves past the clean-up interval (durations at and next to the interval and the TTL, written
// in seconds too), and the pass is triggered the way production triggers it — by the RecordRequest of an attempt that
// finishes (or, less often, by the accessor) — with all B endpoints busy at that moment; afterwards traffic goes on, or
// stops (every attempt finishes: all gauges must read 0).  Judged by the same clauses after every operation.
func collectorHistoryF(r *vlib.Rng, nEP, nOps int, fleet bool) map[string]any {
	c := stats.NewCollector(vlib.QuietLogger())
	eps := make([]*domain.Endpoint, nEP)
	for i := range eps {
		u, _ := url.Parse(fmt.Sprintf("http://10.1.%d.%d:11434", i/200, 1+i%200))
		eps[i] = &domain.Endpoint{Name: fmt.Sprintf("ep-%d", i), URL: u, URLString: u.String(), Status: domain.StatusHealthy}
	}
	inflight := make([]int, nEP)
	var open []int // endpoint of every attempt in flight
	hot := []int{r.Intn(nEP), r.Intn(nEP), r.Intn(nEP)}
	pickEP := func() int {
		if r.Chance(1, 25) {
			hot[r.Intn(len(hot))] = r.Intn(nEP)
		}
		if r.Chance(5, 6) {
			return vlib.Pick(r, hot)
		}
		return r.Intn(nEP)
	}
	triple := func(t, o, f int64) [3]int64 { return [3]int64{t, o, f} }
	ops := []map[string]any{}
	identity := true
	maxBusy := 0
	// forced: operations queued by a "round" — one attempt on every endpoint in turn, so that the collector holds a record
	// for each of them at once (more than it tracks, if there are more than MaxTrackedEndpoints)
	// kind: "" = finish (e < 0: of any attempt in flight), "open", "age" / "pass" (sec seconds)
	type forcedOp struct {
		open bool
		e    int
		kind string
		sec  int
	}
	var forced []forcedOp
	fleets := 0
	fleetAt := -1
	if fleet {
		fleetAt = r.Intn(1 + nOps/6)
	}
	queueFleet := func() {
		fleets++
		b := vlib.Pick(r, busyTargets(nEP))
		planned := 0
		busy := 0
		for _, n := range inflight {
			if n > 0 {
				busy++
			}
		}
		var last int = -1
		for _, e := range permOf(r, nEP) {
			if busy >= b {
				break
			}
			if inflight[e] > 0 {
				continue
			}
			n := 1
			if r.Chance(1, 8) {
				n = 2 + r.Intn(3)
			}
			for i := 0; i < n; i++ {
				forced = append(forced, forcedOp{open: true, e: e, kind: "open"})
				planned++
			}
			busy++
			last = e
		}
		if r.Chance(1, 6) { // a crowd on one endpoint: in-flight counts around the limits on a single gauge
			e := r.Intn(nEP)
			for i, n := 0, vlib.Pick(r, []int{49, 50, 51, 64, 128}); i < n; i++ {
				forced = append(forced, forcedOp{open: true, e: e, kind: "open"})
				planned++
			}
			last = e
		}
		// the silence before the pass: at / next to the clean-up interval (5 min) and the TTL (1 h), in seconds
		sec := vlib.Pick(r, []int{299, 300, 301, 301, 360, 420, 3540, 3599, 3600, 3601, 3660, 3900, 7200, 15000, 86400, 864000})
		forced = append(forced, forcedOp{kind: "age", sec: sec})
		trigger := 0
		if last >= 0 && !r.Chance(1, 4) {
			forced = append(forced, forcedOp{e: last}) // production: the pass runs inside this attempt's RecordRequest
			trigger = 1
		} else {
			forced = append(forced, forcedOp{kind: "pass", sec: vlib.Pick(r, []int{0, 1, 300, 3601})})
		}
		if r.Chance(1, 2) { // traffic stops: every attempt in flight finishes
			for i := len(open) + planned - trigger; i > 0; i-- {
				forced = append(forced, forcedOp{e: -1})
			}
		}
	}
	for k := 0; k < nOps; k++ {
		op := map[string]any{}
		x := r.Intn(20)
		fe := -1
		fsec := -1
		if len(forced) == 0 && fleet && (k == fleetAt || k > fleetAt && r.Chance(1, 40)) {
			queueFleet()
		}
		if len(forced) > 0 {
			fe = forced[0].e
			switch {
			case forced[0].kind == "age":
				x, fsec = 16, forced[0].sec
			case forced[0].kind == "pass":
				x, fsec = 19, forced[0].sec
			case forced[0].open:
				x = 0
			default:
				x = 8
				if len(open) == 0 {
					x = 16 // nothing left to finish: a short silence instead
					fsec = 1
				}
			}
			forced = forced[1:]
		} else if r.Chance(1, 60) {
			for e := range eps {
				forced = append(forced, forcedOp{true, e, "open", 0}, forcedOp{false, e, "", 0})
			}
		}
		switch {
		case x < 8 || len(open) == 0 && x < 16:
			e := fe
			if e < 0 {
				e = pickEP()
			}
			cp := *eps[e]
			c.RecordConnection(&cp, 1)
			inflight[e]++
			open = append(open, e)
			op["op"], op["e"] = "open", e
		case x < 16:
			j := r.Intn(len(open))
			if fe >= 0 {
				for i := range open {
					if open[i] == fe {
						j = i
					}
				}
			}
			e := open[j]
			open = append(open[:j], open[j+1:]...)
			ok := !r.Chance(1, 3)
			before := c.GetEndpointStats()[eps[e].URLString]
			ref0, have0 := stats.VerifEntryRef(c, eps[e].URLString)
			cp := *eps[e]
			c.RecordRequest(&cp, map[bool]string{true: "success", false: "error"}[ok], time.Duration(1+r.Intn(900))*time.Millisecond, int64(r.Intn(100000)))
			cp2 := *eps[e]
			c.RecordConnection(&cp2, -1)
			inflight[e]--
			after, present := c.GetEndpointStats()[eps[e].URLString]
			ref1, have1 := stats.VerifEntryRef(c, eps[e].URLString)
			gain := triple(after.TotalRequests, after.SuccessfulRequests, after.FailedRequests)
			if have0 && have1 {
				if ref0 == ref1 {
					gain = triple(after.TotalRequests-before.TotalRequests, after.SuccessfulRequests-before.SuccessfulRequests, after.FailedRequests-before.FailedRequests)
				}
			} else {
				identity = false
			}
			op["op"], op["e"], op["ok"], op["row_present"], op["gain"] = "finish", e, ok, present, gain
			op["row"] = triple(after.TotalRequests, after.SuccessfulRequests, after.FailedRequests)
		case x < 19:
			d := vlib.Pick(r, []int{1, 2, 4, 7, 33, 58, 64, 64, 95, 250})
			sec := 0
			if fsec >= 0 {
				d, sec = fsec/60, fsec%60
			} else if fleet {
				d = vlib.Pick(r, []int{1, 2, 4, 5, 6, 7, 33, 58, 59, 60, 61, 64, 95, 250, 1440, 14400})
				sec = vlib.Pick(r, []int{0, 0, 0, 1, 59})
			}
			stats.VerifAge(c, time.Duration(d)*time.Minute+time.Duration(sec)*time.Second)
			op["op"], op["min"], op["sec"] = "age", d, sec
		default:
			d := vlib.Pick(r, []int{4, 6, 64})
			sec := 0
			if fsec >= 0 {
				d, sec = fsec/60, fsec%60
			} else if fleet {
				d = vlib.Pick(r, []int{0, 4, 5, 6, 59, 60, 61, 64})
				sec = vlib.Pick(r, []int{0, 0, 1, 59})
			}
			stats.VerifCleanupPassAfter(c, time.Duration(d)*time.Minute+time.Duration(sec)*time.Second)
			op["op"], op["min"], op["sec"] = "pass", d, sec
		}
		cs := c.GetConnectionStats()
		busyNow := 0
		for _, n := range inflight {
			if n > 0 {
				busyNow++
			}
		}
		if busyNow > maxBusy {
			maxBusy = busyNow
		}
		watch := [][3]int64{}
		for i, e := range eps {
			if g := cs[e.URLString]; g != 0 || inflight[i] != 0 {
				watch = append(watch, [3]int64{int64(i), int64(inflight[i]), g})
			}
		}
		g := c.GetProxyStats()
		op["watch"], op["global"], op["rows"] = watch, triple(g.TotalRequests, g.SuccessfulRequests, g.FailedRequests), len(cs)
		ops = append(ops, op)
	}
	rows := [][3]int64{}
	for _, x := range c.GetEndpointStats() {
		rows = append(rows, triple(x.TotalRequests, x.SuccessfulRequests, x.FailedRequests))
	}
	return map[string]any{"endpoints": nEP, "ops": ops, "final_rows": rows, "identity": identity, "fleet": fleet, "fleets": fleets, "max_busy": maxBusy}
}
