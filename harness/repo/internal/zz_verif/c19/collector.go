//go:build verif

package main

import (
	"fmt"
	"net/url"
	"time"

	"github.com/thushan/olla/internal/adapter/stats"
	"github.com/thushan/olla/internal/core/domain"
	"github.com/thushan/olla/internal/zz_verif/vlib"
)

// collectorHistory: ONE stats.Collector (the production constructor) fed the way an engine feeds it — an attempt is
// RecordConnection(+1), later RecordRequest(outcome) and RecordConnection(-1), each on a fresh copy of the endpoint as the
// repository hands them out (copies share the endpoint's parsed URL) — by many overlapping attempts on nEP endpoints over
// simulated hours: traffic concentrates on a few endpoints at a time and moves on, so endpoints fall silent for longer
// than the collector's TTL and come back; with more endpoints than the collector tracks (MaxTrackedEndpoints) its
// pruning path runs too.  Time passes by moving the collector's own time stamps (stats.VerifAge); the clean-up pass is
// run by RecordRequest itself when its interval has elapsed, and by stats.VerifCleanupPassAfter ("pass").
// After EVERY operation: the gauge of every endpoint with attempts in flight (or a non-zero gauge), the global counters,
// and — after a finished attempt — what the attempt's endpoint gained (of the same record: the difference; of a record
// started since: its numbers).
func collectorHistory(r *vlib.Rng, nEP, nOps int) map[string]any {
	c := stats.NewCollector(vlib.QuietLogger())
	eps := make([]*domain.Endpoint, nEP)
	for i := range eps {
		u, _ := url.Parse(fmt.Sprintf("http://10.1.%d.%d:11434", i/200, 1+i%200))
		eps[i] = &domain.Endpoint{Name: fmt.Sprintf("ep-%d", i), URL: u, URLString: u.String(), Status: domain.StatusHealthy}
	}
	inflight := make([]int, nEP)
	var open []int // endpoint of every attempt in flight
	hot := []int{r.Intn(nEP), r.Intn(nEP), r.Intn(nEP)}
	pickEP := func() int {
		if r.Chance(1, 25) {
			hot[r.Intn(len(hot))] = r.Intn(nEP)
		}
		if r.Chance(5, 6) {
			return vlib.Pick(r, hot)
		}
		return r.Intn(nEP)
	}
	triple := func(t, o, f int64) [3]int64 { return [3]int64{t, o, f} }
	ops := []map[string]any{}
	identity := true
	// forced: operations queued by a "round" — one attempt on every endpoint in turn, so that the collector holds a record
	// for each of them at once (more than it tracks, if there are more than MaxTrackedEndpoints)
	type forcedOp struct {
		open bool
		e    int
	}
	var forced []forcedOp
	for k := 0; k < nOps; k++ {
		op := map[string]any{}
		x := r.Intn(20)
		fe := -1
		if len(forced) > 0 {
			fe = forced[0].e
			if forced[0].open {
				x = 0
			} else {
				x = 8
			}
			forced = forced[1:]
		} else if r.Chance(1, 60) {
			for e := range eps {
				forced = append(forced, forcedOp{true, e}, forcedOp{false, e})
			}
		}
		switch {
		case x < 8 || len(open) == 0 && x < 16:
			e := fe
			if e < 0 {
				e = pickEP()
			}
			cp := *eps[e]
			c.RecordConnection(&cp, 1)
			inflight[e]++
			open = append(open, e)
			op["op"], op["e"] = "open", e
		case x < 16:
			j := r.Intn(len(open))
			if fe >= 0 {
				for i := range open {
					if open[i] == fe {
						j = i
					}
				}
			}
			e := open[j]
			open = append(open[:j], open[j+1:]...)
			ok := !r.Chance(1, 3)
			before := c.GetEndpointStats()[eps[e].URLString]
			ref0, have0 := stats.VerifEntryRef(c, eps[e].URLString)
			cp := *eps[e]
			c.RecordRequest(&cp, map[bool]string{true: "success", false: "error"}[ok], time.Duration(1+r.Intn(900))*time.Millisecond, int64(r.Intn(100000)))
			cp2 := *eps[e]
			c.RecordConnection(&cp2, -1)
			inflight[e]--
			after, present := c.GetEndpointStats()[eps[e].URLString]
			ref1, have1 := stats.VerifEntryRef(c, eps[e].URLString)
			gain := triple(after.TotalRequests, after.SuccessfulRequests, after.FailedRequests)
			if have0 && have1 {
				if ref0 == ref1 {
					gain = triple(after.TotalRequests-before.TotalRequests, after.SuccessfulRequests-before.SuccessfulRequests, after.FailedRequests-before.FailedRequests)
				}
			} else {
				identity = false
			}
			op["op"], op["e"], op["ok"], op["row_present"], op["gain"] = "finish", e, ok, present, gain
			op["row"] = triple(after.TotalRequests, after.SuccessfulRequests, after.FailedRequests)
		case x < 19:
			d := vlib.Pick(r, []int{1, 2, 4, 7, 33, 58, 64, 64, 95, 250})
			stats.VerifAge(c, time.Duration(d)*time.Minute)
			op["op"], op["min"] = "age", d
		default:
			d := vlib.Pick(r, []int{4, 6, 64})
			stats.VerifCleanupPassAfter(c, time.Duration(d)*time.Minute)
			op["op"], op["min"] = "pass", d
		}
		cs := c.GetConnectionStats()
		watch := [][3]int64{}
		for i, e := range eps {
			if g := cs[e.URLString]; g != 0 || inflight[i] != 0 {
				watch = append(watch, [3]int64{int64(i), int64(inflight[i]), g})
			}
		}
		g := c.GetProxyStats()
		op["watch"], op["global"], op["rows"] = watch, triple(g.TotalRequests, g.SuccessfulRequests, g.FailedRequests), len(cs)
		ops = append(ops, op)
	}
	rows := [][3]int64{}
	for _, x := range c.GetEndpointStats() {
		rows = append(rows, triple(x.TotalRequests, x.SuccessfulRequests, x.FailedRequests))
	}
	return map[string]any{"endpoints": nEP, "ops": ops, "final_rows": rows, "identity": identity}
}
