//go:build verif

package main

import (
	"time"

	"github.com/thushan/olla/internal/core/domain"
	"github.com/thushan/olla/internal/zz_verif/stack"
)

// breakerGaugeCase: one endpoint, one request held in flight at the backend; meanwhile further requests fail at the same
// endpoint until the engine's breaker (olla) stops contacting it, and one more request is skipped.  The gauge counts
// attempts in flight: it reads 1 for as long as the first request is held, whatever happens to the others, and 0 once it
// has been released and answered.
func breakerGaugeCase(engine string) map[string]any {
	b := stack.NewBackend("G")
	defer b.Close()
	gate := make(chan struct{})
	held := stack.Behaviour{Kind: "ok", Status: 200, Headers: [][2]string{{"Content-Type", "application/json"}}, Body: []byte(`{"ok":true}`), Gate: gate}
	b.SetScript(func(n int, _ *stack.Seen) stack.Behaviour {
		if n == 0 {
			return held
		}
		return stack.Behaviour{Kind: "close0"}
	})
	s, err := stack.Start(stack.Opts{Vary: stack.VaryFor("c19.breakergauge", engine), Engine: engine, Balancer: "priority", Profile: "auto", EPs: []stack.EP{{Name: "G", Type: "openai", Priority: 100, Backend: b}}})
	if err != nil {
		return map[string]any{"start_err": err.Error()}
	}
	defer s.Stop()
	req := stack.Request("POST", "/olla/proxy/v1/chat/completions", s.Addr, [][2]string{{"Content-Type", "application/json"}}, []byte(`{"messages":[]}`), false)
	gauge := func() int64 {
		var g int64
		for _, v := range s.Stats.GetConnectionStats() {
			g += v
		}
		return g
	}
	first := make(chan *stack.Resp, 1)
	go func() { first <- stack.Do(s.Addr, req, 30*time.Second) }()
	for deadline := time.Now().Add(10 * time.Second); b.Count() < 1 && time.Now().Before(deadline); {
		time.Sleep(time.Millisecond)
	}
	g0 := gauge()
	contacted := 0
	var mids []int64
	for i := 0; i < 12; i++ {
		before := b.Count()
		stack.Do(s.Addr, req, 3*time.Second)
		s.SetStatus("G", domain.StatusHealthy)
		mids = append(mids, gauge())
		if b.Count() == before {
			break // skipped without contacting the backend (olla: breaker open; never on sherpa)
		}
		contacted++
	}
	close(gate)
	r := <-first
	stack.Quiesce(func() string { return "" })
	time.Sleep(20 * time.Millisecond)
	return map[string]any{"engine": engine, "held_arrived": b.Count() >= 1, "gauge_while_held": g0, "gauge_after_each_other_request": mids, "failed_round_trips": contacted,
		"first_status": r.Status, "gauge_at_rest": gauge()}
}
