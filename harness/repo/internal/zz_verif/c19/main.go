//go:build verif

// c19: gauges and counters. Every scenario is one fresh production stack (app.CreateAndStartServiceManager)
// in front of scripted backends; N in {1,16,64} clients; collector gauges, collector global / per-endpoint
// counters, engine ProxyStats, translator and model collectors are read at quiescence (polled) and, with
// gated backends that hold every attempt open, mid-flight. Families:
//
//	single      all single / pair outcome mixes of C02/C04 (ok, 4xx/5xx answers, refused, reset, closed,
//	            garbage, six mid-response faults, breaker-open) x 2 engines x 3 balancers, one client
//	concurrent  the same behaviours under 16 / 64 clients, ungated
//	gated       16 / 64 clients all held inside their first contacted backend: mid-flight read, then release
//	abort       the client closes its socket after the first body bytes
//	translator  the Anthropic route (buffered and streaming) with ok / 4xx / 5xx / refused / mid-stream faults
package main

import (
	"context"
	"time"
	"fmt"
	"sync/atomic"
	"sync"
	"encoding/hex"
	"encoding/json"
	"os"
	"strconv"

	"github.com/thushan/olla/internal/adapter/stats"
	"github.com/thushan/olla/internal/zz_verif/scen"
	"github.com/thushan/olla/internal/zz_verif/scen19"
	"github.com/thushan/olla/internal/zz_verif/stack"
	"github.com/thushan/olla/internal/zz_verif/vlib"
)

var names = []string{"A", "B", "C"}
var prios = []int{300, 200, 100}

var answers = []string{"ok", "ok4xx", "ok5xx", "ok099"}

// "dnsfail" (unresolvable endpoint host) needs the host override of package scen; scen19 builds its own stacks, so it is left to C02/C04
var faults = func() []string {
	var out []string
	for _, k := range append(append([]string{}, scen.PreKinds...), scen.PostKinds...) {
		if k != "dnsfail" {
			out = append(out, k)
		}
	}
	return out
}()

// holding kinds: the request reaches the backend, so a gate can hold the attempt open
func holding(k string) bool { return k != "refuse" && k != "open" }

func mkEP(i int, kind string, r *vlib.Rng, bal string) scen.EPSpec {
	n := 40 + r.Intn(200)
	k := 1 + r.Intn(n-1)
	chunked := r.Bool()
	ct := vlib.Pick(r, []string{"application/json", "application/json", "text/event-stream", "application/x-ndjson"})
	e := scen.EPSpec{Name: names[i], Prio: prios[i]}
	if bal != "priority" {
		e.Prio = 100
	}
	switch kind {
	case "ok":
		e.Beh = scen.OkBeh(names[i], 200, n, chunked, ct)
	case "ok4xx":
		e.Beh = scen.OkBeh(names[i], 404, n, chunked, ct)
	case "ok5xx":
		e.Beh = scen.OkBeh(names[i], 503, n, chunked, ct)
	case "ok099": // a status net/http's client accepts but ResponseWriter.WriteHeader rejects with a panic
		e.Beh = scen.OkBeh(names[i], 99, n, chunked, ct)
	case "open":
		e.Open = true
		e.Beh = scen.OkBeh(names[i], 200, n, chunked, ct)
	case "hdr-reset", "hdr-close":
		e.Beh = scen.FaultBeh(names[i], kind, n, 0, chunked, ct)
	default:
		e.Beh = scen.FaultBeh(names[i], kind, n, k, chunked, ct)
	}
	return e
}

const openaiOK = `{"id":"chatcmpl-1","object":"chat.completion","created":1,"model":"m1","choices":[{"index":0,"message":{"role":"assistant","content":"hello there"},"finish_reason":"stop"}],"usage":{"prompt_tokens":3,"completion_tokens":2,"total_tokens":5}}`
const openaiErr = `{"error":{"message":"backend exploded","type":"server_error","code":"boom"}}`
const openaiSSE = "data: {\"id\":\"c1\",\"object\":\"chat.completion.chunk\",\"created\":1,\"model\":\"m1\",\"choices\":[{\"index\":0,\"delta\":{\"role\":\"assistant\",\"content\":\"hel\"},\"finish_reason\":null}]}\n\n" +
	"data: {\"id\":\"c1\",\"object\":\"chat.completion.chunk\",\"created\":1,\"model\":\"m1\",\"choices\":[{\"index\":0,\"delta\":{\"content\":\"lo\"},\"finish_reason\":null}]}\n\n" +
	"data: {\"id\":\"c1\",\"object\":\"chat.completion.chunk\",\"created\":1,\"model\":\"m1\",\"choices\":[{\"index\":0,\"delta\":{},\"finish_reason\":\"stop\"}]}\n\n" +
	"data: [DONE]\n\n"

// translator endpoint: the backend speaks OpenAI
func trEP(i int, kind string, stream bool) scen.EPSpec {
	e := scen.EPSpec{Name: names[i], Prio: prios[i]}
	body, ct := openaiOK, "application/json"
	if stream {
		body, ct = openaiSSE, "text/event-stream"
	}
	mk := func(status int, b, c string) stack.Behaviour {
		return stack.Behaviour{Kind: "ok", Status: status, Headers: [][2]string{{"Content-Type", c}, {"X-Backend", names[i]}}, Body: []byte(b), BodyHex: hex.EncodeToString([]byte(b)), Chunked: stream}
	}
	switch kind {
	case "ok":
		e.Beh = mk(200, body, ct)
	case "ok4xx":
		e.Beh = mk(404, openaiErr, "application/json")
	case "ok5xx":
		e.Beh = mk(503, openaiErr, "application/json")
	default:
		e.Beh = mk(200, body, ct)
		e.Beh.Kind = kind
		e.Beh.K = len(body) / 2
	}
	return e
}

// burstCase: bursts of concurrent clients on one long-lived stack while watchers keep reading the gauges (what a status
// page poll or another request's least-connections selection does).  After every burst nothing is in flight: the gauge
// reads 0, and keeps reading 0 when asked again.
func burstCase(engine, bal string, rounds, clients, watchers int) map[string]any {
	a, b := stack.NewBackend("A"), stack.NewBackend("B")
	defer a.Close()
	defer b.Close()
	for _, be := range []*stack.Backend{a, b} {
		be.SetBehaviour(stack.Behaviour{Kind: "ok", Status: 200, Headers: [][2]string{{"Content-Type", "application/json"}}, Body: []byte(`{"ok":true}`)})
	}
	s, err := stack.Start(stack.Opts{Vary: stack.VaryFor("c19.burst", engine, bal), Engine: engine, Balancer: bal, Profile: "auto",
		EPs: []stack.EP{{Name: "A", Type: "openai", Priority: 100, Backend: a}, {Name: "B", Type: "openai", Priority: 100, Backend: b}}})
	if err != nil {
		return map[string]any{"start_err": err.Error()}
	}
	defer s.Stop()
	var stop atomic.Bool
	var wwg sync.WaitGroup
	for w := 0; w < watchers; w++ {
		wwg.Add(1)
		go func() {
			defer wwg.Done()
			for !stop.Load() {
				_ = s.Stats.GetConnectionStats()
			}
		}()
	}
	req := stack.Request("POST", "/olla/proxy/v1/chat/completions", s.Addr, [][2]string{{"Content-Type", "application/json"}}, []byte(`{"messages":[]}`), false)
	vlib.Breadcrumb(map[string]any{"kind": "bursts", "engine": engine, "balancer": bal, "rounds": rounds, "clients": clients, "watchers": watchers})
	stale, first, served := 0, "", 0
	for r := 0; r < rounds; r++ {
		var wg sync.WaitGroup
		for k := 0; k < clients; k++ {
			wg.Add(1)
			go func() {
				defer wg.Done()
				if rp := stack.Do(s.Addr, req, 5*time.Second); rp.Status == 200 {
					served++
				}
			}()
		}
		wg.Wait()
		time.Sleep(2 * time.Millisecond) // the handlers' deferred bookkeeping has run
		for try := 0; try < 2; try++ {
			cs := s.Stats.GetConnectionStats()
			var sum int64
			for _, v := range cs {
				sum += v
			}
			if sum != 0 && try == 1 {
				stale++
				if first == "" {
					first = fmt.Sprintf("round %d: nothing in flight, gauges read %v (asked twice)", r, cs)
				}
			}
			if sum == 0 {
				break
			}
			time.Sleep(20 * time.Millisecond)
		}
	}
	stop.Store(true)
	wwg.Wait()
	return map[string]any{"rounds": rounds, "clients": clients, "watchers": watchers, "stale_rounds": stale, "first": first}
}

// methodsCase: requests with every method a client may use on a proxied path (HEAD and OPTIONS probes, GET, DELETE, PUT,
// PATCH, POST), one after the other, each answered 200 by the backend and received in full by the client.  Each is one
// request and one success, in every scope.
func methodsCase(engine string) map[string]any {
	b := stack.NewBackend("M")
	defer b.Close()
	b.SetBehaviour(stack.Behaviour{Kind: "ok", Status: 200, Headers: [][2]string{{"Content-Type", "application/json"}}, Body: []byte(`{"ok":true,"pad":"0123456789"}`)})
	s, err := stack.Start(stack.Opts{Vary: stack.VaryFor("c19.methods", engine), Engine: engine, Balancer: "priority", Profile: "auto", EPs: []stack.EP{{Name: "M", Type: "openai", Priority: 100, Backend: b}}})
	if err != nil {
		return map[string]any{"start_err": err.Error()}
	}
	defer s.Stop()
	g0 := s.Stats.GetProxyStats()
	e0, _ := s.Proxy.GetStats(context.Background())
	methods := []string{"HEAD", "GET", "OPTIONS", "POST", "DELETE", "PUT", "PATCH", "HEAD", "HEAD", "GET"}
	answered := 0
	var seen []string
	for _, m := range methods {
		var body []byte
		if m == "POST" || m == "PUT" || m == "PATCH" {
			body = []byte(`{"messages":[]}`)
		}
		r := stack.Do(s.Addr, stack.Request(m, "/olla/proxy/v1/chat/completions", s.Addr, [][2]string{{"Content-Type", "application/json"}}, body, false), 5*time.Second)
		seen = append(seen, fmt.Sprintf("%s:%d:%s", m, r.Status, r.Err))
		if r.Status == 200 && (r.Err == "" || m == "HEAD" && len(r.Body) == 0) {
			answered++
		}
		time.Sleep(5 * time.Millisecond)
	}
	time.Sleep(30 * time.Millisecond)
	g := s.Stats.GetProxyStats()
	e, _ := s.Proxy.GetStats(context.Background())
	var pe [3]int64
	for _, x := range s.Stats.GetEndpointStats() {
		pe = [3]int64{pe[0] + x.TotalRequests, pe[1] + x.SuccessfulRequests, pe[2] + x.FailedRequests}
	}
	return map[string]any{"sent": len(methods), "answered_200_in_full": answered, "backend_saw": len(b.Taken()), "seen": seen,
		"global": [3]int64{g.TotalRequests - g0.TotalRequests, g.SuccessfulRequests - g0.SuccessfulRequests, g.FailedRequests - g0.FailedRequests},
		"engine": [3]int64{e.TotalRequests - e0.TotalRequests, e.SuccessfulRequests - e0.SuccessfulRequests, e.FailedRequests - e0.FailedRequests},
		"per_endpoint": pe}
}


// genHistory: a history for one long-lived stack (scen19.RunHistory), drawn from r.  Endpoint statuses evolve from step
// to step (an endpoint goes down, stays down for a few steps, recovers), every traffic step draws its own behaviours,
// client count, family (single / concurrent / gated / abort / translator), request path and size; in between, silences
// of minutes to hours, clean-up passes and health-check flaps.
//
// The olla engine keeps a breaker per endpoint that opens after 5 consecutive failed round trips and stays open for a
// while: rt is an upper bound of each endpoint's consecutive failed round trips so far, and a behaviour that fails the
// round trip is drawn for an endpoint only while the bound stays below the threshold (the breaker-open behaviour has
// its own scenarios on fresh stacks).
func genHistory(r *vlib.Rng, engine, bal string, nsteps int, thorough bool) *scen19.History {
	h := &scen19.History{Engine: engine, Balancer: bal, Names: names, Prios: []int{100, 100, 100}}
	if bal == "priority" {
		h.Prios = prios
	}
	if r.Chance(1, 4) {
		for range names {
			h.BasePaths = append(h.BasePaths, vlib.Pick(r, []string{"/", "/api/", "", "/"}))
		}
	}
	h.Discovery = r.Chance(1, 3)
	status := []string{"", "", ""}
	rt := []int{0, 0, 0}
	rtFail := func(k string) bool {
		return k == "refuse" || k == "reset0" || k == "close0" || k == "garbage" || k == "hdr-reset" || k == "hdr-close"
	}
	aborts := 0
	all := append(append([]string{}, answers...), faults...)
	trMixes := [][]string{{"ok"}, {"ok4xx"}, {"ok5xx"}, {"refuse"}, {"close0"}, {"refuse", "ok"}, {"refuse", "ok5xx"}, {"body-close"}, {"body-reset"}, {"hdr-close"}}
	for len(h.Steps) < nsteps {
		switch x := r.Intn(20); {
		case x < 4:
			h.Steps = append(h.Steps, scen19.HStep{Op: "silence", Minutes: vlib.Pick(r, []int{1, 4, 6, 30, 59, 61, 61, 90, 240})})
			continue
		case x < 6:
			h.Steps = append(h.Steps, scen19.HStep{Op: "pass", Minutes: vlib.Pick(r, []int{4, 6, 61})})
			continue
		case x < 7 && h.Discovery:
			h.Steps = append(h.Steps, scen19.HStep{Op: "flap"})
			for i := range status { // every endpoint passed its last check
				status[i] = ""
			}
			continue
		}
		// health transitions since the last step
		for i := range status {
			if status[i] == "" {
				if r.Chance(1, 4) {
					status[i] = vlib.Pick(r, []string{"offline", "unhealthy"})
				}
			} else if r.Chance(1, 3) {
				status[i] = ""
			}
		}
		if status[0] != "" && status[1] != "" && status[2] != "" && r.Chance(3, 4) {
			status[r.Intn(3)] = ""
		}
		sc := &scen19.Scenario{Engine: engine, Balancer: bal, Route: "proxy", Clients: 1}
		family := "single"
		switch x := r.Intn(20); {
		case x < 8:
		case x < 13:
			family, sc.Clients = "concurrent", 2+r.Intn(map[bool]int{false: 7, true: 15}[thorough])
		case x < 18:
			family, sc.Clients, sc.Gated = "gated", 2+r.Intn(map[bool]int{false: 7, true: 15}[thorough]), true
		case x < 19 && aborts < map[bool]int{false: 1, true: 3}[thorough]:
			family = "abort"
			aborts++
		default:
			family = "translator"
		}
		if engine == "olla" && sc.Clients > 4 {
			sc.Clients = 2 + sc.Clients%3 // leaves room for failing behaviours under the breaker's threshold
		}
		healthy := []int{}
		for i := range names {
			if status[i] == "" {
				healthy = append(healthy, i)
			}
		}
		kinds := make([]string, len(names))
		switch family {
		case "abort":
			sc.Abort = true
			for i := range names {
				chunked := r.Bool()
				e := scen.EPSpec{Name: names[i], Prio: h.Prios[i], Status: status[i]}
				e.Beh = scen.FaultBeh(names[i], "body-stall", 4000, 2000, chunked, map[bool]string{false: "application/json", true: "text/event-stream"}[chunked])
				e.Beh.StallMs = 700
				sc.EPs = append(sc.EPs, e)
				kinds[i] = "body-stall"
			}
		case "translator":
			stream := r.Bool()
			sc.Route = map[bool]string{false: "anthropic", true: "anthropic-stream"}[stream]
			mix := vlib.Pick(r, trMixes)
			for i := range names {
				k := "ok"
				if i < len(mix) {
					k = mix[i]
				}
				if engine == "olla" && rtFail(k) && rt[i]+sc.Clients > 4 {
					k = "ok"
				}
				e := trEP(i, k, stream)
				e.Prio = h.Prios[i]
				if i < len(mix) {
					status[i] = "" // the mix's endpoints take the request, the others are down for this step
				} else if status[i] == "" {
					status[i] = "offline"
				}
				e.Status = status[i]
				sc.EPs = append(sc.EPs, e)
				kinds[i] = k
			}
		default:
			for i := range names {
				k := "ok"
				if !r.Chance(1, 2) {
					k = vlib.Pick(r, all)
				}
				if sc.Gated && !holding(k) && status[i] == "" && (bal != "priority" || len(healthy) > 0 && healthy[0] == i) {
					k = vlib.Pick(r, []string{"ok", "ok5xx", "hdr-reset", "body-close", "shortcl"}) // whoever may be selected first must be reachable
				}
				if engine == "olla" && rtFail(k) && rt[i]+sc.Clients > 4 {
					k = "ok"
				}
				e := mkEP(i, k, r, bal)
				e.Status = status[i]
				sc.EPs = append(sc.EPs, e)
				kinds[i] = k
			}
			sc.Path = vlib.Pick(r, []string{"", "", "/v1/completions", "/v1/embeddings", "/api/generate"})
			if r.Chance(1, 3) {
				sc.Pad = 1 + r.Intn(20000)
			}
			if sc.Gated {
				if h.Discovery && r.Chance(1, 5) {
					sc.Flap = true
				}
				if r.Chance(1, 4) {
					sc.UptimeMin = vlib.Pick(r, []int{6, 61})
				}
			}
		}
		// the breaker's view after this step
		healthy = healthy[:0]
		for i := range names {
			if status[i] == "" {
				healthy = append(healthy, i)
			}
		}
		for i := range names {
			if status[i] != "" {
				continue
			}
			if rtFail(kinds[i]) {
				rt[i] += sc.Clients
			} else if len(healthy) == 1 || bal == "priority" && healthy[0] == i {
				rt[i] = 0 // every request of the step makes a round trip to it that succeeds
			}
		}
		if sc.Flap {
			for i := range status {
				status[i] = ""
			}
		}
		h.Steps = append(h.Steps, scen19.HStep{Op: "traffic", Sc: sc})
	}
	return h
}

func main() {
	tier := vlib.Tier()
	r := vlib.NewRng(vlib.Seed())
	c := vlib.OpenCases("cases.jsonl")
	var scs []*scen19.Scenario
	var fam []string
	add := func(family, engine, bal string, kinds []string, clients int, gated bool) {
		for _, k := range kinds {
			if k == "open" && engine != "olla" {
				return // only the olla engine has a per-endpoint breaker
			}
		}
		sc := &scen19.Scenario{Engine: engine, Balancer: bal, Route: "proxy", Clients: clients, Gated: gated}
		for i, k := range kinds {
			sc.EPs = append(sc.EPs, mkEP(i, k, r, bal))
		}
		if len(scs)%4 == 3 { // endpoint urls configured in the documented trailing-slash forms
			for range kinds {
				sc.BasePaths = append(sc.BasePaths, []string{"/", "/api/", "", "/"}[(len(scs)/4+len(sc.BasePaths))%4])
			}
		}
		scs = append(scs, sc)
		fam = append(fam, family)
	}
	if rp := vlib.ReplayPath(); rp != "" {
		var rep struct {
			FailingCase struct {
				Family   string          `json:"family"`
				Scenario scen19.Scenario `json:"scenario"`
			} `json:"failing_case"`
		}
		b, _ := os.ReadFile(rp)
		json.Unmarshal(b, &rep)
		sc := rep.FailingCase.Scenario
		scs = append(scs, &sc)
		fam = append(fam, rep.FailingCase.Family)
	} else {
		all := append(append(append([]string{}, answers...), faults...), "open")
		first := append(append([]string{}, faults...), "open")
		engines := []string{"sherpa", "olla"}
		bals := []string{"priority", "round-robin", "least-connections"}
		thorough := tier == "thorough"
		for _, engine := range engines {
			for _, bal := range bals {
				for _, k := range all {
					add("single", engine, bal, []string{k}, 1, false)
				}
				for _, k1 := range first {
					for _, k2 := range all {
						if bal == "priority" || thorough || r.Chance(1, 4) {
							add("single", engine, bal, []string{k1, k2}, 1, false)
						}
					}
				}
				// an answering endpoint first: the second one must stay untouched
				for _, k1 := range answers {
					add("single", engine, bal, []string{k1, vlib.Pick(r, all)}, 1, false)
				}
				// triples, sampled
				nt := 6
				if thorough {
					nt = 60
				}
				for i := 0; i < nt; i++ {
					add("single", engine, bal, []string{vlib.Pick(r, first), vlib.Pick(r, first), vlib.Pick(r, all)}, 1, false)
				}
				// concurrent, ungated: every behaviour alone, and failover pairs
				for _, n := range []int{16, 64} {
					for _, k := range all {
						if thorough || n == 16 || r.Chance(1, 3) {
							add("concurrent", engine, bal, []string{k}, n, false)
						}
					}
					for i := 0; i < map[bool]int{false: 5, true: 40}[thorough]; i++ {
						add("concurrent", engine, bal, []string{vlib.Pick(r, first), vlib.Pick(r, all)}, n, false)
					}
				}
				// gated: the first endpoint holds; anything behind it
				for _, n := range []int{16, 64} {
					for _, k := range all {
						if holding(k) && (thorough || n == 64 || r.Chance(1, 3)) {
							add("gated", engine, bal, []string{k}, n, true)
						}
					}
					for i := 0; i < map[bool]int{false: 5, true: 40}[thorough]; i++ {
						k1 := vlib.Pick(r, faults)
						for !holding(k1) {
							k1 = vlib.Pick(r, faults)
						}
						k2 := vlib.Pick(r, all)
						if bal != "priority" {
							for !holding(k2) { // every endpoint may be selected first
								k2 = vlib.Pick(r, all)
							}
						}
						add("gated", engine, bal, []string{k1, k2}, n, true)
					}
				}
			}
			// long uptime: the collector's periodic clean-up pass runs while attempts are in flight
			for _, bal := range []string{"priority", "least-connections"} {
				add("gated", engine, bal, []string{"ok", "ok"}, 16, true)
				scs[len(scs)-1].UptimeMin = 6
				add("gated", engine, bal, []string{"ok"}, 16, true)
				scs[len(scs)-1].UptimeMin = 61
				// the endpoints fail a health check and pass the next one while attempts are in flight
				add("gated", engine, bal, []string{"ok", "ok"}, 8, true)
				scs[len(scs)-1].Flap = true
				add("gated", engine, bal, []string{"ok"}, 4, true)
				scs[len(scs)-1].Flap = true
				// an endpoint that served traffic, then nothing for more / less than the collector's TTL, is in use
				// again when the clean-up pass runs
				for _, idle := range []int{61, 59, 240} {
					add("gated", engine, bal, []string{"ok", "ok"}, 12, true)
					scs[len(scs)-1].IdleMin, scs[len(scs)-1].UptimeMin = idle, 6
					add("gated", engine, bal, []string{"ok"}, 5, true)
					scs[len(scs)-1].IdleMin, scs[len(scs)-1].UptimeMin = idle, 6
				}
			}
			// client abort: the backend stalls mid-body, the client goes away
			for _, bal := range bals {
				for _, chunked := range []bool{false, true} {
					sc := &scen19.Scenario{Engine: engine, Balancer: bal, Route: "proxy", Clients: 1, Abort: true}
					e := scen.EPSpec{Name: "A", Prio: 300}
					e.Beh = scen.FaultBeh("A", "body-stall", 4000, 2000, chunked, map[bool]string{false: "application/json", true: "text/event-stream"}[chunked])
					e.Beh.StallMs = 700
					sc.EPs = append(sc.EPs, e)
					if r.Bool() { // a second endpoint that stalls the same way (whichever is selected, the client leaves mid-stream)
						e2 := scen.EPSpec{Name: "B", Prio: 200}
						if bal != "priority" {
							e.Prio, e2.Prio = 100, 100
							sc.EPs[0].Prio = 100
						}
						e2.Beh = scen.FaultBeh("B", "body-stall", 4000, 2000, chunked, map[bool]string{false: "application/json", true: "text/event-stream"}[chunked])
						e2.Beh.StallMs = 700
						sc.EPs = append(sc.EPs, e2)
					}
					scs = append(scs, sc)
					fam = append(fam, "abort")
				}
			}
			// translator route
			for _, stream := range []bool{false, true} {
				route := map[bool]string{false: "anthropic", true: "anthropic-stream"}[stream]
				mixes := [][]string{{"ok"}, {"ok4xx"}, {"ok5xx"}, {"refuse"}, {"close0"}, {"refuse", "ok"}, {"refuse", "ok5xx"}, {"body-close"}, {"body-reset"}, {"hdr-close"}}
				for _, m := range mixes {
					for _, n := range []int{1, 16} {
						if n == 16 && !(thorough || len(m) == 1 && (m[0] == "ok" || m[0] == "ok5xx" || m[0] == "refuse")) {
							continue
						}
						sc := &scen19.Scenario{Engine: engine, Balancer: "priority", Route: route, Clients: n}
						for i, k := range m {
							sc.EPs = append(sc.EPs, trEP(i, k, stream))
						}
						scs = append(scs, sc)
						fam = append(fam, "translator")
					}
				}
			}
		}
	}
	// histories on long-lived stacks (not in a single-scenario replay)
	var hists []*scen19.History
	if vlib.ReplayPath() == "" {
		hr := r.Fork()
		per, steps := 5, 16
		if tier == "thorough" {
			per, steps = 16, 32
		}
		for _, engine := range []string{"sherpa", "olla"} {
			for _, bal := range []string{"priority", "round-robin", "least-connections"} {
				for k := 0; k < per; k++ {
					hists = append(hists, genHistory(hr.Fork(), engine, bal, steps+hr.Intn(steps/2), tier == "thorough"))
				}
			}
		}
	}
	// VERIF_C19_ONLY=history (a debugging aid): the same histories as in a full run, nothing else
	only := os.Getenv("VERIF_C19_ONLY")
	if only == "history" {
		scs, fam = nil, nil
	}
	out := make([]*scen19.Obs, len(scs))
	scen.ParallelMap(len(scs), 12, func(i int) { out[i] = scen19.Run(scs[i]) })
	hout := make([]*scen19.HistObs, len(hists))
	scen.ParallelMap(len(hists), 6, func(i int) { hout[i] = scen19.RunHistory(hists[i]) })
	for i, sc := range scs {
		c.Count(fam[i] + "." + sc.Engine + "." + sc.Balancer + ".c" + strconv.Itoa(sc.Clients))
		c.Emit(map[string]any{"kind": "counters", "family": fam[i], "scenario": sc, "impl": out[i]})
	}
	for i, h := range hists {
		c.Count("history." + h.Engine + "." + h.Balancer)
		c.Emit(map[string]any{"kind": "history", "engine": h.Engine, "balancer": h.Balancer, "history": h, "impl": hout[i]})
	}
	if vlib.ReplayPath() == "" {
		cr := r.Fork()
		nh, nops := 8, 400
		if tier == "thorough" {
			nh, nops = 40, 1500
		}
		for k := 0; k < nh; k++ {
			nEP := []int{3, 8, 20, 60, 75, 5, 51, 120}[k%8]
			c.Emit(map[string]any{"kind": "collector-history", "impl": collectorHistory(cr.Fork(), nEP, nops)})
			c.Count(fmt.Sprintf("collector-history.%d", nEP))
		}
		// round 8: busy fleets — fleet sizes at, next to and well above the number of endpoints the collector tracks, with
		// as many endpoints busy when a clean-up pass runs (collector.go, collectorHistoryF)
		m := stats.MaxTrackedEndpoints
		sizes := []int{m + 1, 64, m, 2*m + 20, m + 2, 128, m - 1, 10 * m}
		nf, fops := 8, 500
		if tier == "thorough" {
			nf, fops = 32, 1200
			sizes = append(sizes, 65, 2*m, 3*m+1, 127, 2*m+1, 63, 256, 20*m)
		}
		for k := 0; k < nf; k++ {
			nEP := sizes[k%len(sizes)]
			if k >= len(sizes) {
				nEP = vlib.Pick(cr, sizes) + cr.Intn(3) - 1
			}
			c.Emit(map[string]any{"kind": "collector-history", "impl": collectorHistoryF(cr.Fork(), nEP, fops, true)})
			c.Count(fmt.Sprintf("collector-history.fleet.%d", nEP))
		}
	}
	for _, engine := range []string{"sherpa", "olla"} {
		if only == "history" {
			break
		}
		c.Emit(map[string]any{"kind": "breaker-gauge", "engine": engine, "impl": breakerGaugeCase(engine)})
		c.Count("breaker-gauge." + engine)
		c.Emit(map[string]any{"kind": "methods", "engine": engine, "impl": methodsCase(engine)})
		c.Count("methods." + engine)
	}
	for _, engine := range []string{"sherpa", "olla"} {
		for _, bal := range []string{"least-connections", "priority"} {
			if only == "history" {
				break
			}
			c.Emit(map[string]any{"kind": "bursts", "engine": engine, "balancer": bal, "impl": burstCase(engine, bal, map[bool]int{false: 250, true: 2500}[tier == "thorough"], 8, 3)})
			c.Count("bursts." + engine + "." + bal)
		}
	}
	c.Close(map[string]any{"exhaustive": true,
		"exhaustive_note": "one client: all 14 single behaviours and (priority balancer) all 11x14 (failing first, anything second) pairs per engine, pairs sampled 1/4 on round-robin / least-connections (all in thorough), triples sampled; 16 and 64 clients: every single behaviour ungated and gated, pairs sampled; client abort x 2 framings x 3 balancers x 2 engines; Anthropic route buffered + streaming x 10 mixes; histories (long-lived stacks, one collector) are sampled from the seed, not exhaustive"})
}
