//go:build verif

// gen_translator renders Olla/Gen/Translator.lean: every finite table the Anthropic
// translator models (C12, C13) consult, obtained by RUNNING the compiled translator:
//   - finish_reason -> stop_reason through the buffered path (TransformResponse) and,
//     separately, through the streaming path (TransformStreamingResponse);
//   - tool_choice form x keyword -> OpenAI tool_choice through TransformRequest;
//   - the acceptance intervals of AnthropicRequest.Validate, found by scanning;
//   - HTTP status -> Anthropic error type through WriteError.
package main

import (
	"bufio"
	"context"
	"encoding/json"
	"fmt"
	"net/http/httptest"
	"strings"

	"github.com/thushan/olla/internal/adapter/translator/anthropic"
	"github.com/thushan/olla/internal/config"
	"github.com/thushan/olla/internal/zz_verif/vlib"
)

var finishReasons = []string{"stop", "tool_calls", "length", "content_filter", "function_call", "", "zz-junk"}

func newTr() *anthropic.Translator {
	return anthropic.NewTranslator(vlib.QuietLogger(), config.AnthropicTranslatorConfig{Enabled: true, MaxMessageSize: 10 << 20})
}

func bufferedStop(tr *anthropic.Translator, choice map[string]interface{}) string {
	resp := map[string]interface{}{"model": "m", "choices": []interface{}{choice}}
	out, err := tr.TransformResponse(context.Background(), resp, httptest.NewRequest("POST", "/", nil))
	if err != nil {
		return "!error"
	}
	b, _ := json.Marshal(out)
	var m map[string]interface{}
	_ = json.Unmarshal(b, &m)
	s, _ := m["stop_reason"].(string)
	return s
}

func streamStop(tr *anthropic.Translator, fr string) string {
	c1, _ := json.Marshal(map[string]interface{}{"model": "m", "choices": []interface{}{map[string]interface{}{"index": 0, "delta": map[string]interface{}{"content": "x"}}}})
	c2, _ := json.Marshal(map[string]interface{}{"model": "m", "choices": []interface{}{map[string]interface{}{"index": 0, "delta": map[string]interface{}{}, "finish_reason": fr}}})
	in := "data: " + string(c1) + "\n\ndata: " + string(c2) + "\n\ndata: [DONE]\n\n"
	rec := httptest.NewRecorder()
	if err := tr.TransformStreamingResponse(context.Background(), strings.NewReader(in), rec, httptest.NewRequest("POST", "/", nil)); err != nil {
		return "!error"
	}
	sc := bufio.NewScanner(rec.Body)
	sc.Buffer(make([]byte, 0, 1<<16), 1<<22)
	res := "!none"
	for sc.Scan() {
		l := sc.Text()
		if !strings.HasPrefix(l, "data: ") {
			continue
		}
		var m map[string]interface{}
		if json.Unmarshal([]byte(l[6:]), &m) != nil {
			continue
		}
		if m["type"] == "message_delta" {
			d, _ := m["delta"].(map[string]interface{})
			s, _ := d["stop_reason"].(string)
			res = s
		}
	}
	return res
}

func toolChoice(tr *anthropic.Translator, choice interface{}, withTools bool) string {
	req := map[string]interface{}{"model": "m", "max_tokens": 5,
		"messages": []interface{}{map[string]interface{}{"role": "user", "content": "x"}}}
	if withTools {
		req["tools"] = []interface{}{map[string]interface{}{"name": "f", "description": "d", "input_schema": map[string]interface{}{"type": "object"}}}
	}
	if choice != nil {
		req["tool_choice"] = choice
	}
	b, _ := json.Marshal(req)
	out, err := tr.TransformRequest(context.Background(), httptest.NewRequest("POST", "/", strings.NewReader(string(b))))
	if err != nil {
		return "error"
	}
	v, ok := out.OpenAIRequest["tool_choice"]
	if !ok {
		return "absent"
	}
	switch x := v.(type) {
	case string:
		return x
	case map[string]interface{}:
		fn, _ := x["function"].(map[string]interface{})
		n, _ := fn["name"].(string)
		if x["type"] == "function" && len(x) == 2 && len(fn) == 1 {
			return "function:" + n
		}
	}
	return "!unrecognised"
}

// scan f over k = from..to (inclusive) and return the accepted interval; ok=false if
// the accepted set is empty or not one interval.
func interval(from, to int64, f func(k int64) bool) (lo, hi int64, ok bool) {
	state := 0
	for k := from; k <= to; k++ {
		a := f(k)
		switch {
		case state == 0 && a:
			lo, state = k, 1
		case state == 1 && !a:
			hi, state = k-1, 2
		case state == 2 && a:
			return 0, 0, false
		}
	}
	if state == 1 {
		hi = to
	}
	return lo, hi, state != 0
}

func main() {
	const ns = "Olla.Gen.Translator"
	f := vlib.NewLeanFile(ns, "gen_translator")
	tr := newTr()

	var rows, srows []string
	for _, fr := range finishReasons {
		rows = append(rows, vlib.LeanTuple(vlib.LeanStr(fr), vlib.LeanStr(bufferedStop(tr, map[string]interface{}{"message": map[string]interface{}{"content": "x"}, "finish_reason": fr}))))
		srows = append(srows, vlib.LeanTuple(vlib.LeanStr(fr), vlib.LeanStr(streamStop(tr, fr))))
	}
	f.Def("stopTable", "List (String × String)", vlib.LeanList(rows),
		"finish_reason -> stop_reason observed on the exported buffered path TransformResponse; the last row is a string outside the documented values (the `default:` branch)")
	f.Def("stopTableStream", "List (String × String)", vlib.LeanList(srows),
		"the same table observed on the exported streaming path TransformStreamingResponse (message_delta.delta.stop_reason)")
	f.Def("stopAbsent", "String", vlib.LeanStr(bufferedStop(tr, map[string]interface{}{"message": map[string]interface{}{"content": "x"}})),
		"stop_reason when the choice carries no finish_reason at all (buffered path)")
	f.Def("stopNull", "String", vlib.LeanStr(bufferedStop(tr, map[string]interface{}{"message": map[string]interface{}{"content": "x"}, "finish_reason": nil})),
		"stop_reason when finish_reason is JSON null (buffered path)")

	keys := []string{"auto", "any", "none", "tool", "zz-junk"}
	var crows []string
	for _, k := range keys {
		crows = append(crows, vlib.LeanTuple(vlib.LeanTuple(vlib.LeanStr("str"), vlib.LeanStr(k)), vlib.LeanStr(toolChoice(tr, k, true))))
	}
	for _, k := range keys {
		crows = append(crows, vlib.LeanTuple(vlib.LeanTuple(vlib.LeanStr("obj"), vlib.LeanStr(k)), vlib.LeanStr(toolChoice(tr, map[string]interface{}{"type": k}, true))))
	}
	crows = append(crows, vlib.LeanTuple(vlib.LeanTuple(vlib.LeanStr("obj+name"), vlib.LeanStr("tool")), vlib.LeanStr(toolChoice(tr, map[string]interface{}{"type": "tool", "name": "N"}, true))))
	for _, k := range []string{"auto", "any", "none", "zz-junk"} {
		crows = append(crows, vlib.LeanTuple(vlib.LeanTuple(vlib.LeanStr("obj+name"), vlib.LeanStr(k)), vlib.LeanStr(toolChoice(tr, map[string]interface{}{"type": k, "name": "N"}, true))))
	}
	crows = append(crows, vlib.LeanTuple(vlib.LeanTuple(vlib.LeanStr("other"), vlib.LeanStr("")), vlib.LeanStr(toolChoice(tr, 7, true))))
	f.Def("toolChoiceTable", "List ((String × String) × String)", vlib.LeanList(crows),
		"(form, keyword) -> OpenAI tool_choice produced by the exported TransformRequest with one tool defined. form: str = JSON string, obj = {type:k}, obj+name = {type:k,name:\"N\"}, other = a JSON number. result: the string, or function:<name>, or error (request rejected), or absent")
	var nrows []string
	for _, c := range []struct {
		k string
		v interface{}
	}{{"auto-str", "auto"}, {"auto-obj", map[string]interface{}{"type": "auto"}}, {"tool-obj", map[string]interface{}{"type": "tool", "name": "N"}}, {"tool-obj-noname", map[string]interface{}{"type": "tool"}}} {
		nrows = append(nrows, vlib.LeanTuple(vlib.LeanStr(c.k), vlib.LeanStr(toolChoice(tr, c.v, false))))
	}
	f.Def("toolChoiceNoTools", "List (String × String)", vlib.LeanList(nrows),
		"tool_choice produced when the request defines NO tools")

	// Validate acceptance intervals (exported method on the exported request type)
	base := func() anthropic.AnthropicRequest {
		return anthropic.AnthropicRequest{Model: "m", MaxTokens: 5, Messages: []anthropic.AnthropicMessage{{Role: "user", Content: "x"}}}
	}
	emitIv := func(name, what string, from, to int64, fn func(int64) bool) {
		lo, hi, ok := interval(from, to, fn)
		if !ok {
			lo, hi = 1, 0 // empty interval: every side condition about it fails loudly
		}
		f.Def(name, "Int × Int", vlib.LeanTuple(vlib.LeanInt(lo), vlib.LeanInt(hi)), what)
		f.Def(name+"ScanMin", "Int", vlib.LeanInt(from), "lower end of the scanned range for "+name+" (a `lo` equal to it means: no lower limit inside the scan)")
		f.Def(name+"ScanMax", "Int", vlib.LeanInt(to), "upper end of the scanned range for "+name+" (a `hi` equal to it means: no upper limit inside the scan)")
	}
	emitIv("temperatureMicros", "accepted temperature values in millionths, scanned over -1.000000..3.000000 through AnthropicRequest.Validate", -1000000, 3000000, func(k int64) bool {
		r := base()
		v := float64(k) / 1e6
		r.Temperature = &v
		return r.Validate() == nil
	})
	emitIv("topPMicros", "accepted top_p values in millionths, scanned over -1.000000..3.000000", -1000000, 3000000, func(k int64) bool {
		r := base()
		v := float64(k) / 1e6
		r.TopP = &v
		return r.Validate() == nil
	})
	emitIv("maxTokensRange", "accepted max_tokens, scanned over -1000..100000", -1000, 100000, func(k int64) bool {
		r := base()
		r.MaxTokens = int(k)
		return r.Validate() == nil
	})
	emitIv("topKRange", "accepted top_k, scanned over -1000..100000", -1000, 100000, func(k int64) bool {
		r := base()
		v := int(k)
		r.TopK = &v
		return r.Validate() == nil
	})
	r0 := base()
	r0.Model = ""
	r1 := base()
	r1.Messages = nil
	f.Def("requiresModel", "Bool", vlib.LeanBool(r0.Validate() != nil), "Validate rejects an empty model")
	f.Def("requiresMessages", "Bool", vlib.LeanBool(r1.Validate() != nil), "Validate rejects an empty message list")

	var erows []string
	for _, st := range []int{400, 401, 403, 404, 413, 429, 500, 502, 503} {
		rec := httptest.NewRecorder()
		tr.WriteError(rec, fmt.Errorf("x"), st)
		var m map[string]interface{}
		_ = json.Unmarshal(rec.Body.Bytes(), &m)
		e, _ := m["error"].(map[string]interface{})
		ty, _ := e["type"].(string)
		top, _ := m["type"].(string)
		erows = append(erows, vlib.LeanTuple(vlib.LeanNat(uint64(st)), vlib.LeanNat(uint64(rec.Code)), vlib.LeanStr(top), vlib.LeanStr(ty)))
	}
	f.Def("errorTable", "List (Nat × Nat × String × String)", vlib.LeanList(erows),
		"(status passed to WriteError, status written, body.type, body.error.type)")
	f.Write(ns)
}
