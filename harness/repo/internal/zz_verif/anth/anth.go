//go:build verif

// Package anth holds what the C05 and C14 harnesses share: request bodies in the two dialects,
// well-formed backend answers in the two dialects, a backend script that answers by the path and
// body it received, model catalogue set-up, and the classification of a body a backend received
// (Anthropic-shaped / OpenAI-shaped).
package anth

import (
	"context"
	"crypto/sha256"
	"encoding/hex"
	"encoding/json"
	"fmt"
	"strings"
	"time"

	"github.com/thushan/olla/internal/core/domain"
	"github.com/thushan/olla/internal/zz_verif/stack"
)

const Model = "m1"

// AnthropicBody is a valid Anthropic Messages request. `salt` makes the bytes unique per scenario
// (unusual spacing and key order on purpose: byte-identity must not depend on re-marshalling).
func AnthropicBody(model string, stream bool, salt string) []byte {
	return []byte(fmt.Sprintf(`{ "max_tokens": 64,  "model":%q, "stream": %v, "system":"be brief %s", "messages":[ {"role":"user","content":[{"type":"text","text":"hi"}]} ]}`, model, stream, salt))
}

// OpenAIBody is a chat completions request.
func OpenAIBody(model string, stream bool, salt string) []byte {
	return []byte(fmt.Sprintf(`{"model":%q,"stream":%v,"messages":[{"role":"system","content":"be brief %s"},{"role":"user","content":"hi"}]}`, model, stream, salt))
}

// Shape classifies a body a backend received: "anthropic" (has max_tokens and Anthropic-style
// top-level system or content blocks), "openai" (chat completions shape), else "other".
func Shape(body []byte) string {
	var m map[string]any
	if err := json.Unmarshal(body, &m); err != nil {
		return "other"
	}
	_, hasMsgs := m["messages"].([]any)
	if !hasMsgs {
		return "other"
	}
	_, hasSystem := m["system"]
	blocks := false
	sysMsg := false
	for _, x := range m["messages"].([]any) {
		if mm, ok := x.(map[string]any); ok {
			if _, isArr := mm["content"].([]any); isArr {
				blocks = true
			}
			if mm["role"] == "system" {
				sysMsg = true
			}
		}
	}
	if hasSystem || (blocks && !sysMsg) {
		return "anthropic"
	}
	return "openai"
}

func SHA(b []byte) string { s := sha256.Sum256(b); return hex.EncodeToString(s[:]) }

// ---- well-formed backend answers

func OpenAICompletion(from string) []byte {
	b, _ := json.Marshal(map[string]any{"id": "chatcmpl-1", "object": "chat.completion", "model": Model,
		"choices": []any{map[string]any{"index": 0, "message": map[string]any{"role": "assistant", "content": "hello from " + from}, "finish_reason": "stop"}},
		"usage":   map[string]any{"prompt_tokens": 3, "completion_tokens": 4, "total_tokens": 7}})
	return b
}

func OpenAISSE(from string) []byte {
	var sb strings.Builder
	for _, piece := range []string{"hello ", "from ", from} {
		c, _ := json.Marshal(map[string]any{"id": "chatcmpl-1", "object": "chat.completion.chunk", "model": Model,
			"choices": []any{map[string]any{"index": 0, "delta": map[string]any{"content": piece}}}})
		sb.WriteString("data: " + string(c) + "\n\n")
	}
	c, _ := json.Marshal(map[string]any{"id": "chatcmpl-1", "object": "chat.completion.chunk", "model": Model,
		"choices": []any{map[string]any{"index": 0, "delta": map[string]any{}, "finish_reason": "stop"}}})
	sb.WriteString("data: " + string(c) + "\n\ndata: [DONE]\n\n")
	return []byte(sb.String())
}

func AnthropicMessage(from string) []byte {
	b, _ := json.Marshal(map[string]any{"id": "msg_native", "type": "message", "role": "assistant", "model": Model,
		"content": []any{map[string]any{"type": "text", "text": "native hello from " + from}}, "stop_reason": "end_turn", "stop_sequence": nil,
		"usage": map[string]any{"input_tokens": 3, "output_tokens": 4}})
	return b
}

func AnthropicSSE(from string) []byte {
	ev := func(name string, v any) string { b, _ := json.Marshal(v); return "event: " + name + "\ndata: " + string(b) + "\n\n" }
	return []byte(ev("message_start", map[string]any{"type": "message_start", "message": map[string]any{"id": "msg_native", "type": "message", "role": "assistant", "model": Model, "content": []any{}, "usage": map[string]any{"input_tokens": 3, "output_tokens": 0}}}) +
		ev("content_block_start", map[string]any{"type": "content_block_start", "index": 0, "content_block": map[string]any{"type": "text", "text": ""}}) +
		ev("content_block_delta", map[string]any{"type": "content_block_delta", "index": 0, "delta": map[string]any{"type": "text_delta", "text": "native hello from " + from}}) +
		ev("content_block_stop", map[string]any{"type": "content_block_stop", "index": 0}) +
		ev("message_delta", map[string]any{"type": "message_delta", "delta": map[string]any{"stop_reason": "end_turn", "stop_sequence": nil}, "usage": map[string]any{"output_tokens": 4}}) +
		ev("message_stop", map[string]any{"type": "message_stop"}))
}

// WantsStream reads the "stream" flag of a request body.
func WantsStream(body []byte) bool {
	var m map[string]any
	_ = json.Unmarshal(body, &m)
	b, _ := m["stream"].(bool)
	return b
}

// OKAnswer is the well-formed 200 answer a healthy backend gives to the request it saw:
// Anthropic dialect on /v1/messages, OpenAI dialect elsewhere, SSE when the request asks to stream.
func OKAnswer(name string, s *stack.Seen) stack.Behaviour {
	native := strings.HasSuffix(s.Path, "/v1/messages")
	stream := WantsStream(s.Body)
	var body []byte
	ct := "application/json"
	switch {
	case native && stream:
		body, ct = AnthropicSSE(name), "text/event-stream"
	case native:
		body = AnthropicMessage(name)
	case stream:
		body, ct = OpenAISSE(name), "text/event-stream"
	default:
		body = OpenAICompletion(name)
	}
	return stack.Behaviour{Kind: "ok", Status: 200, Headers: [][2]string{{"Content-Type", ct}, {"X-Backend", name}}, Body: body, Chunked: stream}
}

// ---- catalogue

// OpenAIListing serves an OpenAI-format model listing on /v1/models.
func OpenAIListing(models []string) func(string) (int, string) {
	type m struct {
		ID     string `json:"id"`
		Object string `json:"object"`
	}
	var data []m
	for _, n := range models {
		data = append(data, m{ID: n, Object: "model"})
	}
	b, _ := json.Marshal(map[string]any{"object": "list", "data": data})
	return func(p string) (int, string) {
		if p == "/v1/models" {
			return 200, string(b)
		}
		return 0, ""
	}
}

// WaitCatalogued waits until the start-up model discovery has catalogued `want` models for every backend.
func WaitCatalogued(s *stack.Stack, backends []*stack.Backend, want int) bool {
	reg, err := s.Disc.GetRegistry()
	if err != nil {
		return false
	}
	deadline := time.Now().Add(4 * time.Second)
	for time.Now().Before(deadline) {
		ok := true
		for _, b := range backends {
			got, _ := reg.GetModelsForEndpoint(context.Background(), b.URL())
			if len(got) != want {
				ok = false
			}
		}
		if ok && Routable(s, backends, Model) {
			return true
		}
		time.Sleep(5 * time.Millisecond)
	}
	return false
}

// Routable reports whether the registry routes `model` to every one of the (healthy) backends.
func Routable(s *stack.Stack, backends []*stack.Backend, model string) bool {
	reg, err := s.Disc.GetRegistry()
	if err != nil {
		return false
	}
	healthy, _ := s.Repo.GetHealthy(context.Background())
	eps, _, err := reg.GetRoutableEndpointsForModel(context.Background(), model, healthy)
	if err != nil {
		return false
	}
	n := 0
	for _, e := range eps {
		for _, b := range backends {
			if e.URLString == b.URL() {
				n++
			}
		}
	}
	return n == len(backends)
}

// Register puts `models` into the registry for the backend directly (what a discovery round would do),
// independent of the listing format of the endpoint's platform.
func Register(s *stack.Stack, b *stack.Backend, models []string) error {
	reg, err := s.Disc.GetRegistry()
	if err != nil {
		return err
	}
	var ms []*domain.ModelInfo
	for _, m := range models {
		ms = append(ms, &domain.ModelInfo{Name: m, Type: "model", LastSeen: time.Now()})
	}
	return reg.RegisterModels(context.Background(), b.URL(), ms)
}

// Header1 returns the first value of a response header or "".
func Header1(r *stack.Resp, k string) string {
	if v := r.Header[k]; len(v) > 0 {
		return v[0]
	}
	return ""
}
