//go:build verif

// gen_security renders Olla/Gen/Security.lean by RUNNING the compiled admission code:
//   - the middleware the production wiring mounts on proxy routes
//     (handlers.NewApplication(...).GetSecurityAdapters().CreateChainMiddleware()) in front of a
//     counting handler: which status a rate-limit refusal / an oversize Content-Length gets, whether
//     two peers that differ only in the port share a bucket, whether a chunked body is cut off;
//   - the same four facts for the stand-alone middlewares of internal/adapter/security
//     (RateLimitValidator.CreateMiddleware / SizeValidator.CreateMiddleware), which are NOT mounted;
//   - which registered routes are guarded at all (RouteInfo.IsProxy);
//   - the translator handler's answer to an oversize body.
package main

import (
	"context"
	"fmt"
	"io"
	"net/http"
	"net/http/httptest"
	"os"
	"sort"
	"strings"

	"github.com/thushan/olla/internal/adapter/security"
	"github.com/thushan/olla/internal/adapter/stats"
	"github.com/thushan/olla/internal/app/handlers"
	"github.com/thushan/olla/internal/config"
	"github.com/thushan/olla/internal/zz_verif/vlib"
)

type facts struct {
	rateStatus, sizeStatus int
	portInKey, chunkedCut  bool
	chunkedSeen            int
}

func probe(mk func(cfg *config.Config) (func(http.Handler) http.Handler, func())) facts {
	var f facts
	newCfg := func(perIP, burst int, maxBody int64) *config.Config {
		c := config.DefaultConfig()
		c.Server.RateLimits.GlobalRequestsPerMinute = 0
		c.Server.RateLimits.PerIPRequestsPerMinute = perIP
		c.Server.RateLimits.HealthRequestsPerMinute = 0
		c.Server.RateLimits.BurstSize = burst
		c.Server.RateLimits.CleanupInterval = 0
		c.Server.RequestLimits.MaxBodySize = maxBody
		return c
	}
	seen := -1
	next := http.HandlerFunc(func(w http.ResponseWriter, r *http.Request) {
		b, _ := io.ReadAll(r.Body)
		seen = len(b)
		w.WriteHeader(200)
	})
	do := func(h http.Handler, remote string, body io.Reader, cl int64) int {
		req := httptest.NewRequest("POST", "/olla/proxy/v1/chat/completions", body)
		req.RemoteAddr = remote
		req.ContentLength = cl
		rec := httptest.NewRecorder()
		seen = -1
		h.ServeHTTP(rec, req)
		return rec.Code
	}
	// rate: burst 1, 1/min: second request of the same peer is excess
	mw, stop := mk(newCfg(1, 1, 0))
	h := mw(next)
	do(h, "10.1.2.3:40000", strings.NewReader("{}"), 2)
	f.rateStatus = do(h, "10.1.2.3:40000", strings.NewReader("{}"), 2)
	// same ip, other port: admitted iff the port is part of the key
	f.portInKey = do(h, "10.1.2.3:40001", strings.NewReader("{}"), 2) == 200
	stop()
	// size: declared 5000 > 1000
	mw, stop = mk(newCfg(0, 0, 1000))
	h = mw(next)
	f.sizeStatus = do(h, "10.1.2.3:40000", strings.NewReader(strings.Repeat("a", 5000)), 5000)
	// chunked 5000 (ContentLength −1): does the handler get to read all of it?
	do(h, "10.1.2.3:40000", io.NopCloser(strings.NewReader(strings.Repeat("a", 5000))), -1)
	f.chunkedSeen = seen
	f.chunkedCut = seen >= 0 && seen <= 1000
	stop()
	return f
}

func main() {
	const ns = "Olla.Gen.Security"
	f := vlib.NewLeanFile(ns, "gen_security")
	log := vlib.QuietLogger()

	mounted := probe(func(cfg *config.Config) (func(http.Handler) http.Handler, func()) {
		svc, ad := security.NewSecurityServices(cfg, stats.NewCollector(log), log)
		app, err := handlers.NewApplication(context.Background(), cfg, nil, nil, nil, nil, nil, svc.Chain, log)
		if err != nil {
			fmt.Fprintln(os.Stderr, "gen_security: NewApplication:", err)
			os.Exit(3)
		}
		return app.GetSecurityAdapters().CreateChainMiddleware(), ad.Stop
	})
	standalone := probe(func(cfg *config.Config) (func(http.Handler) http.Handler, func()) {
		_, ad := security.NewSecurityServices(cfg, stats.NewCollector(log), log)
		return ad.CreateChainMiddleware(), ad.Stop
	})
	// what the mounted chain (rate limit, size limit, request logging, access logging) does to the request it hands
	// on: nothing — every header the client sent, with every line, and the URL are what the next handler sees
	var chainChanges []string
	{
		cfg := config.DefaultConfig()
		cfg.Server.RateLimits.PerIPRequestsPerMinute = 0
		cfg.Server.RateLimits.GlobalRequestsPerMinute = 0
		svc, ad := security.NewSecurityServices(cfg, stats.NewCollector(log), log)
		app, err := handlers.NewApplication(context.Background(), cfg, nil, nil, nil, nil, nil, svc.Chain, log)
		if err != nil {
			fmt.Fprintln(os.Stderr, "gen_security: NewApplication:", err)
			os.Exit(3)
		}
		long := strings.Repeat("0123456789abcdef", 40)
		sent := http.Header{}
		for _, n := range []string{"X-Request-ID", "X-Correlation-ID", "Traceparent", "X-Session-ID", "Idempotency-Key", "Referer", "Accept-Language", "X-Client-Version", "Authorization", "X-Custom"} {
			sent.Add(n, "first-"+n)
			sent.Add(n, "second-"+n)
			sent.Add(n, long)
		}
		target := "/olla/proxy/v1/chat/completions?api_key=sk-1&access_token=t%20t&password=p&x=a+b&y=%2e%2e#frag"
		var got http.Header
		var gotURI, gotQuery string
		next := http.HandlerFunc(func(w http.ResponseWriter, r *http.Request) {
			got, gotURI, gotQuery = r.Header.Clone(), r.URL.Path, r.URL.RawQuery
			w.WriteHeader(200)
		})
		req := httptest.NewRequest("POST", target, strings.NewReader("{}"))
		for k, v := range sent {
			req.Header[k] = append([]string(nil), v...)
		}
		wantPath, wantQuery := req.URL.Path, req.URL.RawQuery
		app.GetSecurityAdapters().CreateChainMiddleware()(next).ServeHTTP(httptest.NewRecorder(), req)
		ad.Stop()
		if got == nil {
			chainChanges = append(chainChanges, "request did not reach the next handler")
		} else {
			for k, v := range sent {
				if fmt.Sprint(got[k]) != fmt.Sprint(v) {
					chainChanges = append(chainChanges, "header:"+k)
				}
			}
			if gotURI != wantPath {
				chainChanges = append(chainChanges, "path")
			}
			if gotQuery != wantQuery {
				chainChanges = append(chainChanges, "query")
			}
		}
		sort.Strings(chainChanges)
	}
	{
		q := make([]string, len(chainChanges))
		for i, x := range chainChanges {
			q[i] = vlib.LeanStr(x)
		}
		f.Def("chainRequestChanges", "List String", vlib.LeanList(q),
			"what the mounted middleware chain changed in a probe request (headers with three lines each incl. a 640-byte one, credential-looking query parameters) before the next handler saw it")
	}
	row := func(x facts) string {
		return vlib.LeanTuple(vlib.LeanNat(uint64(x.rateStatus)), vlib.LeanNat(uint64(x.sizeStatus)), vlib.LeanBool(x.portInKey), vlib.LeanBool(x.chunkedCut))
	}
	f.Def("mounted", "Nat × Nat × Bool × Bool", row(mounted),
		"the middleware the production wiring mounts on proxy routes (handlers.SecurityAdapters.CreateChainMiddleware): (status of a rate-limit refusal, status of an oversize Content-Length, a second connection from the same IP gets a fresh bucket, a chunked body of 5×max is cut off at max)")
	f.Def("standalone", "Nat × Nat × Bool × Bool", row(standalone),
		"the same facts for internal/adapter/security.Adapters.CreateChainMiddleware, which the production wiring does not mount")

	// which routes are guarded
	cfg := config.DefaultConfig()
	app, err := handlers.NewApplication(context.Background(), cfg, nil, nil, nil, nil, nil, nil, log)
	if err != nil {
		fmt.Fprintln(os.Stderr, "gen_security: NewApplication:", err)
		os.Exit(3)
	}
	app.RegisterRoutes()
	routes := app.GetRouteRegistry().GetRoutes()
	guard := func(p string) string {
		r, ok := routes[p]
		return vlib.LeanTuple(vlib.LeanStr(p), vlib.LeanBool(ok), vlib.LeanBool(ok && r.IsProxy))
	}
	f.Def("routeGuard", "List (String × Bool × Bool)", vlib.LeanList([]string{guard("/olla/proxy/"), guard("/olla/openai/"), guard("/olla/ollama/"),
		guard("/olla/anthropic/v1/messages"), guard("/internal/health")}),
		"(route pattern, registered, IsProxy — WireUpWithSecurityChain mounts the chain on IsProxy routes only)")
	// config.Load: which networks end up trusted, for a file that lists some and an optional environment override.
	// (what the rate limiter consults is the parsed cache, what an operator sees is the textual list)
	strs := func(xs []string) string {
		q := make([]string, len(xs))
		for i, x := range xs {
			q[i] = vlib.LeanStr(x)
		}
		return vlib.LeanList(q)
	}
	var rows []string
	for _, fileList := range [][]string{{"10.0.0.0/8"}, {"127.0.0.0/8", "10.0.0.0/8"}, {"0.0.0.0/0"}, {"192.168.0.0/16", "172.16.0.0/12", "10.0.0.0/8"}} {
		for _, envList := range [][]string{nil, {"10.20.30.40/32"}, {"10.0.0.0/8"}, {"192.168.0.0/16", "172.16.0.0/12"}} {
			tmp, err := os.CreateTemp("", "gen-security-*.yaml")
			if err != nil {
				fmt.Fprintln(os.Stderr, "gen_security:", err)
				os.Exit(1)
			}
			fmt.Fprintf(tmp, "server:\n  rate_limits:\n    trust_proxy_headers: true\n    trusted_proxy_cidrs: [%s]\n", "\""+strings.Join(fileList, "\", \"")+"\"")
			tmp.Close()
			if envList != nil {
				os.Setenv("OLLA_SERVER_TRUSTED_PROXY_CIDRS", strings.Join(envList, ","))
			}
			cfg, err := config.Load(tmp.Name())
			os.Unsetenv("OLLA_SERVER_TRUSTED_PROXY_CIDRS")
			os.Remove(tmp.Name())
			if err != nil {
				fmt.Fprintln(os.Stderr, "gen_security: config.Load:", err)
				os.Exit(1)
			}
			var parsed []string
			for _, n := range cfg.Server.RateLimits.TrustedProxyCIDRsParsed {
				parsed = append(parsed, n.String())
			}
			rows = append(rows, vlib.LeanTuple(strs(fileList), strs(envList), strs(cfg.Server.RateLimits.TrustedProxyCIDRs), strs(parsed)))
		}
	}
	f.Def("trustedProxies", "List (List String × List String × List String × List String)", vlib.LeanList(rows),
		"config.Load: (trusted_proxy_cidrs in the file, OLLA_SERVER_TRUSTED_PROXY_CIDRS or [] if unset, the textual list in the loaded configuration, the parsed networks the rate limiter consults)")
	f.Write(ns)
}
