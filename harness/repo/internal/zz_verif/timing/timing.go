//go:build verif

// Package timing is the real-time part of the C18 harness: a causally gated scripted backend
// (chunk k+1 is sent only after the client acknowledged chunk k, or after an ack timeout), an
// incremental raw HTTP/1.1 client that reports when which body bytes became visible, and a
// runner that puts the unchanged production stack (stack.Start) between the two.
//
// All times are microseconds since the scenario's T0 (one monotonic clock: backend and client
// live in the same process, the ack is a Go channel).
package timing

import (
	"bufio"
	"bytes"
	"context"
	"fmt"
	"io"
	"net"
	"net/http"
	"runtime"
	"strconv"
	"strings"
	"sync"
	"sync/atomic"
	"time"

	"github.com/thushan/olla/internal/adapter/proxy"
	"github.com/thushan/olla/internal/config"
	"github.com/thushan/olla/internal/core/domain"
	"github.com/thushan/olla/internal/zz_verif/stack"
)

// ---------------------------------------------------------------- scenario

type Step struct {
	GapMs int `json:"gap_ms"` // pause before this chunk (measured from the previous send / the headers)
	Size  int `json:"size"`   // bytes; chunk k is Size copies of Fill(k)
}

// Fill is the byte chunk k consists of; adjacent chunks differ, so the run-length encoding of the
// concatenation is exactly the list of chunks.
func Fill(k int) byte { return byte('a' + k%26) }

type Scenario struct {
	Engine     string `json:"engine"`  // sherpa | olla
	Profile    string `json:"profile"` // auto | streaming | standard — what the operator configured
	Forced     bool   `json:"forced"`  // true: profile additionally pushed into the engine through ProxyService.UpdateConfig; false: production wiring only
	CT         string `json:"ct"`
	Framing    string `json:"framing"` // chunked | cl
	Pre        string `json:"pre"`     // "" | stall (backend never answers)
	HdrDelayMs int    `json:"hdr_delay_ms"`
	Steps      []Step `json:"steps"`
	Ending     string `json:"ending"` // eof | reset | stall
	EndGapMs   int    `json:"end_gap_ms"`
	AbortBytes int    `json:"abort_bytes"` // client closes its socket once it has this many body bytes (-1: never; 0: right after the headers)
	AbortMs    int    `json:"abort_ms"`    // client closes its socket this long after sending the request (0: never)
	TimeoutMs  int    `json:"timeout_ms"`  // cfg.Proxy.ReadTimeout
	AckMs      int    `json:"ack_ms"`      // how long the backend waits for the client's ack before it goes on regardless
	HoldMs     int    `json:"hold_ms"`     // how long a "stall" holds the socket before the backend gives up and closes
	// NoResponseTimeout: proxy.response_timeout is 0 ("disabled", what the documentation recommends for long
	// generations); the configured read_timeout is what cuts off a stalled backend either way
	NoResponseTimeout bool `json:"no_response_timeout,omitempty"`
	// StreamBufferSize: proxy.stream_buffer_size for this rig (0 = the default)
	StreamBufferSize int `json:"stream_buffer_size,omitempty"`
	// Enc: the backend's answer carries Content-Encoding: <Enc> (a compressing front end such as nginx with gzip on); the
	// proxy relays the encoded bytes as they are, chunk by chunk, like any other stream
	Enc   string `json:"enc,omitempty"`
	// Script (histories on one long-lived rig, see history.go): the name under which this scenario's script is armed at the
	// backend; the client sends it as X-Verif-Script, so that many scripted requests can be in flight on one rig at once
	Script string `json:"script,omitempty"`
	Route  string `json:"route"` // proxy (/olla/proxy/..., bytes relayed verbatim) | anthropic (/olla/anthropic/v1/messages: the backend's OpenAI SSE is translated on the fly; acknowledgement = the client saw new bytes)
}

type ChunkObs struct {
	SendUs int64 `json:"send_us"` // just before the write
	SentUs int64 `json:"sent_us"` // write returned
	Acked  bool  `json:"acked"`   // the client had every byte up to and including this chunk before the backend moved on
	AckUs  int64 `json:"ack_us"`
}

type BackendObs struct {
	Got       bool       `json:"got"`
	ReqUs     int64      `json:"req_us"`
	HdrUs     int64      `json:"hdr_us"`
	Chunks    []ChunkObs `json:"chunks"`
	EndKind   string     `json:"end_kind"` // eof | reset | released (stall given up after hold) | torn (proxy closed the upstream connection first) | ""
	EndUs     int64      `json:"end_us"`
	TornUs    int64      `json:"torn_us"`  // when the backend saw its connection closed by the proxy (-1: it never did before closing itself)
	Requests  int        `json:"requests"` // scripted requests that reached this backend (1 unless something retried)
	OpenAtEnd int64      `json:"open_at_end"`
}

type ClientObs struct {
	Err     string   `json:"err"`
	SentUs  int64    `json:"sent_us"`
	Status  int      `json:"status"`
	HdrUs   int64    `json:"hdr_us"`
	CT      string   `json:"ct"`
	Chunked bool     `json:"chunked"`
	BodyLen int      `json:"body_len"`
	RLE     [][2]int `json:"rle"` // run-length encoding of the body bytes seen: [byte, count]
	RLEOver bool     `json:"rle_truncated,omitempty"`
	End     string   `json:"end"` // clean | closed | reset | open | aborted | error
	EndUs   int64    `json:"end_us"`
	AbortUs int64    `json:"abort_us"`
	FirstUs int64    `json:"first_us"` // first body byte
	Reads   int      `json:"reads"`
}

type Obs struct {
	StartErr string     `json:"start_err,omitempty"`
	Backend  BackendObs `json:"backend"`
	Client   ClientObs  `json:"client"`
}

// ---------------------------------------------------------------- backend

type Backend struct {
	ln   net.Listener
	addr string
	open int64
	mu   sync.Mutex
	sc   *Scenario
	t0   time.Time
	acks []chan struct{}
	prog *int64 // body bytes the client has seen so far (route anthropic: acknowledgement by activity)
	obs  *BackendObs
	done chan struct{} // closed when the scripted request has been fully played
	once sync.Once
	// scripts of a history (history.go), by the name the client sends in X-Verif-Script
	scripts map[string]*script
}

func NewBackend() *Backend {
	ln, err := net.Listen("tcp", "127.0.0.1:0")
	if err != nil {
		panic(err)
	}
	b := &Backend{ln: ln, addr: ln.Addr().String(), done: make(chan struct{})}
	go b.serve()
	return b
}

func (b *Backend) URL() string      { return "http://" + b.addr }
func (b *Backend) Close()           { b.ln.Close() }
func (b *Backend) OpenConns() int64 { return atomic.LoadInt64(&b.open) }

// Arm installs the script for the next non-housekeeping request.
func (b *Backend) Arm(sc *Scenario, t0 time.Time, acks []chan struct{}, prog *int64) *BackendObs {
	b.mu.Lock()
	defer b.mu.Unlock()
	b.sc, b.t0, b.acks, b.prog = sc, t0, acks, prog
	b.obs = &BackendObs{HdrUs: -1, EndUs: -1, TornUs: -1}
	b.done = make(chan struct{})
	b.once = sync.Once{}
	return b.obs
}

func (b *Backend) Done() <-chan struct{} { b.mu.Lock(); defer b.mu.Unlock(); return b.done }

func (b *Backend) serve() {
	for {
		c, err := b.ln.Accept()
		if err != nil {
			return
		}
		atomic.AddInt64(&b.open, 1)
		go func() {
			defer atomic.AddInt64(&b.open, -1)
			b.handle(c)
		}()
	}
}

func us(t0 time.Time) int64 { return time.Since(t0).Microseconds() }

func (b *Backend) handle(c net.Conn) {
	defer c.Close()
	br := bufio.NewReader(c)
	for {
		req, err := http.ReadRequest(br)
		if err != nil {
			return
		}
		io.Copy(io.Discard, req.Body)
		p := req.URL.Path
		switch {
		case p == "/health":
			fmt.Fprintf(c, "HTTP/1.1 200 OK\r\nContent-Type: application/json\r\nContent-Length: 2\r\n\r\n{}")
			continue
		case strings.HasSuffix(p, "/models"):
			js := `{"object":"list","data":[]}`
			fmt.Fprintf(c, "HTTP/1.1 200 OK\r\nContent-Type: application/json\r\nContent-Length: %d\r\n\r\n%s", len(js), js)
			continue
		case strings.HasSuffix(p, "/warm"):
			fmt.Fprintf(c, "HTTP/1.1 200 OK\r\nContent-Type: application/json\r\nContent-Length: 2\r\nConnection: close\r\n\r\n{}")
			return
		}
		if id := req.Header.Get(ScriptHeader); id != "" {
			// a request of a history: it names its own script (history.go)
			if s := b.takeScript(id); s != nil {
				b.play(c, s.sc, s.t0, s.acks, s.prog, s.obs)
				close(s.done)
				return
			}
			fmt.Fprintf(c, "HTTP/1.1 500 X\r\nContent-Length: 0\r\nConnection: close\r\n\r\n")
			return
		}
		b.mu.Lock()
		sc, t0, acks, obs, done, prog := b.sc, b.t0, b.acks, b.obs, b.done, b.prog
		b.mu.Unlock()
		if sc == nil {
			fmt.Fprintf(c, "HTTP/1.1 500 X\r\nContent-Length: 0\r\nConnection: close\r\n\r\n")
			return
		}
		b.mu.Lock()
		obs.Requests++
		first := obs.Requests == 1
		b.mu.Unlock()
		if !first {
			fmt.Fprintf(c, "HTTP/1.1 500 X\r\nContent-Length: 0\r\nConnection: close\r\n\r\n")
			return
		}
		b.play(c, sc, t0, acks, prog, obs)
		b.once.Do(func() { close(done) })
		return
	}
}

// play runs the script on one connection. Only this goroutine writes obs until done is closed.
func (b *Backend) play(c net.Conn, sc *Scenario, t0 time.Time, acks []chan struct{}, prog *int64, obs *BackendObs) {
	anth := sc.Route == "anthropic"
	obs.Got = true
	obs.ReqUs = us(t0)
	// teardown detector: the request has been read completely, so the next thing the socket says is its end
	torn := make(chan struct{})
	var tornUs int64 = -1
	go func() {
		buf := make([]byte, 512)
		for {
			if _, err := c.Read(buf); err != nil {
				atomic.StoreInt64(&tornUs, us(t0))
				close(torn)
				return
			}
		}
	}()
	finish := func(kind string) {
		obs.EndKind = kind
		obs.EndUs = us(t0)
		obs.TornUs = atomic.LoadInt64(&tornUs)
	}
	hold := func() { // stall: keep the socket, say nothing
		select {
		case <-torn:
			finish("torn")
		case <-time.After(time.Duration(sc.HoldMs) * time.Millisecond):
			finish("released")
		}
	}
	// waitUntil returns false if the proxy tore the connection down first
	waitUntil := func(t time.Time) bool {
		d := time.Until(t)
		if d <= 0 {
			select {
			case <-torn:
				return false
			default:
				return true
			}
		}
		select {
		case <-torn:
			return false
		case <-time.After(d):
			return true
		}
	}
	if sc.Pre == "stall" {
		hold()
		return
	}
	last := time.Now()
	if !waitUntil(last.Add(time.Duration(sc.HdrDelayMs) * time.Millisecond)) {
		finish("torn")
		return
	}
	total := 0
	for _, s := range sc.Steps {
		total += s.Size
	}
	var hb bytes.Buffer
	fmt.Fprintf(&hb, "HTTP/1.1 200 OK\r\nContent-Type: %s\r\n", sc.CT)
	if sc.Enc != "" {
		fmt.Fprintf(&hb, "Content-Encoding: %s\r\nVary: Accept-Encoding\r\n", sc.Enc)
	}
	if sc.Framing == "cl" {
		cl := total
		if sc.Ending != "eof" {
			cl += 64 // the announced rest never comes
		}
		fmt.Fprintf(&hb, "Content-Length: %d\r\n", cl)
	} else {
		hb.WriteString("Transfer-Encoding: chunked\r\n")
	}
	hb.WriteString("Connection: close\r\n\r\n")
	obs.HdrUs = us(t0)
	if _, err := c.Write(hb.Bytes()); err != nil {
		finish("torn")
		return
	}
	last = time.Now()
	var seenBefore int64
	ackWait := func(k int) { // after chunk k was written
		co := &obs.Chunks[k]
		if anth {
			dl := time.Now().Add(time.Duration(sc.AckMs) * time.Millisecond)
			for time.Now().Before(dl) {
				if atomic.LoadInt64(prog) > seenBefore {
					co.Acked, co.AckUs = true, us(t0)
					return
				}
				time.Sleep(500 * time.Microsecond)
			}
			return
		}
		// (a torn upstream connection does not end the wait: what was already relayed may still be on its way to the client)
		select {
		case <-acks[k]:
			co.Acked, co.AckUs = true, us(t0)
		case <-time.After(time.Duration(sc.AckMs) * time.Millisecond):
		}
	}
	for k, s := range sc.Steps {
		if !waitUntil(last.Add(time.Duration(s.GapMs) * time.Millisecond)) {
			finish("torn")
			return
		}
		var buf []byte
		if anth {
			seenBefore = atomic.LoadInt64(prog)
			ev := OpenAIChunk(strings.Repeat(string(rune(Fill(k))), s.Size), "")
			buf = []byte(fmt.Sprintf("%x\r\n%s\r\n", len(ev), ev))
		} else if sc.Framing == "cl" {
			buf = bytes.Repeat([]byte{Fill(k)}, s.Size)
		} else {
			hd := fmt.Sprintf("%x\r\n", s.Size)
			buf = make([]byte, 0, len(hd)+s.Size+2)
			buf = append(buf, hd...)
			buf = append(buf, bytes.Repeat([]byte{Fill(k)}, s.Size)...)
			buf = append(buf, '\r', '\n')
		}
		obs.Chunks = append(obs.Chunks, ChunkObs{SendUs: us(t0)})
		last = time.Now()
		_, err := c.Write(buf)
		obs.Chunks[k].SentUs = us(t0)
		if err != nil {
			finish("torn")
			return
		}
		if sc.Framing == "cl" && sc.Ending == "eof" && k == len(sc.Steps)-1 {
			// Content-Length framing: the last announced byte IS the end of the response
			obs.EndKind, obs.EndUs = "eof", obs.Chunks[k].SentUs
			ackWait(k)
			obs.TornUs = atomic.LoadInt64(&tornUs)
			return
		}
		ackWait(k)
	}
	if !waitUntil(last.Add(time.Duration(sc.EndGapMs) * time.Millisecond)) {
		finish("torn")
		return
	}
	switch sc.Ending {
	case "eof":
		if anth {
			ev := OpenAIChunk("", "stop") + "data: [DONE]\n\n"
			fmt.Fprintf(c, "%x\r\n%s\r\n", len(ev), ev)
		}
		if sc.Framing != "cl" {
			c.Write([]byte("0\r\n\r\n"))
		}
		finish("eof")
	case "reset":
		finish("reset")
		if tc, ok := c.(*net.TCPConn); ok {
			tc.SetLinger(0)
		}
	default:
		hold()
	}
}

// OpenAIChunk is one chat.completion.chunk SSE event.
func OpenAIChunk(content, finish string) string {
	fr := "null"
	if finish != "" {
		fr = fmt.Sprintf("%q", finish)
	}
	delta := "{}"
	if content != "" {
		delta = fmt.Sprintf(`{"role":"assistant","content":%q}`, content)
	}
	return fmt.Sprintf(`data: {"id":"chatcmpl-1","object":"chat.completion.chunk","model":"m1","choices":[{"index":0,"delta":%s,"finish_reason":%s}]}`, delta, fr) + "\n\n"
}

// ---------------------------------------------------------------- client

type rle struct {
	runs [][2]int
	over bool
}

func (r *rle) add(p []byte) {
	for _, x := range p {
		if len(r.runs) >= 512 { // not one of ours (an error page, say): keep the head only
			r.over = true
			return
		}
		if n := len(r.runs); n > 0 && r.runs[n-1][0] == int(x) {
			r.runs[n-1][1]++
		} else {
			r.runs = append(r.runs, [2]int{int(x), 1})
		}
	}
}

// bodyParser consumes response bytes after the header block and reports body bytes.
type bodyParser struct {
	chunked  bool
	cl       int64 // -1: close-delimited
	got      int64
	state    int // chunked: 0 size line, 1 data, 2 CRLF after data, 3 trailer/final CRLF, 4 done
	line     []byte
	remain   int64
	complete bool
}

func (p *bodyParser) feed(b []byte, sink func([]byte)) {
	if !p.chunked {
		if p.cl >= 0 {
			left := p.cl - p.got
			if int64(len(b)) > left {
				b = b[:left]
			}
		}
		if len(b) > 0 {
			sink(b)
			p.got += int64(len(b))
		}
		if p.cl >= 0 && p.got >= p.cl {
			p.complete = true
		}
		return
	}
	for len(b) > 0 && p.state != 4 {
		switch p.state {
		case 0, 3:
			i := bytes.IndexByte(b, '\n')
			if i < 0 {
				p.line = append(p.line, b...)
				return
			}
			p.line = append(p.line, b[:i]...)
			b = b[i+1:]
			ln := strings.TrimRight(string(p.line), "\r")
			p.line = p.line[:0]
			if p.state == 3 {
				if ln == "" {
					p.state = 4
					p.complete = true
				}
				continue
			}
			sz, err := strconv.ParseInt(strings.TrimSpace(strings.SplitN(ln, ";", 2)[0]), 16, 64)
			if err != nil {
				p.state = 4
				return
			}
			if sz == 0 {
				p.state = 3
			} else {
				p.remain = sz
				p.state = 1
			}
		case 1:
			n := int64(len(b))
			if n > p.remain {
				n = p.remain
			}
			sink(b[:n])
			p.got += n
			p.remain -= n
			b = b[n:]
			if p.remain == 0 {
				p.state = 2
			}
		case 2:
			i := bytes.IndexByte(b, '\n')
			if i < 0 {
				return
			}
			b = b[i+1:]
			p.state = 0
		}
	}
}

// RunClient sends one POST and watches the response arrive.
func RunClient(addr string, sc *Scenario, t0 time.Time, acks []chan struct{}, thresholds []int, prog *int64, deadline time.Time) ClientObs {
	o := ClientObs{HdrUs: -1, EndUs: -1, AbortUs: -1, FirstUs: -1}
	c, err := net.DialTimeout("tcp", addr, 2*time.Second)
	if err != nil {
		o.Err, o.End = "dial", "error"
		return o
	}
	defer c.Close()
	target := "/olla/proxy/v1/chat/completions"
	body := `{"messages":[{"role":"user","content":"hi"}],"stream":true}`
	if sc.Route == "anthropic" {
		target = "/olla/anthropic/v1/messages"
		body = `{"max_tokens":64,"model":"m1","stream":true,"messages":[{"role":"user","content":[{"type":"text","text":"hi"}]}]}`
	}
	accept := ""
	if sc.Enc != "" {
		// the client asks for the encoding itself, so the proxy's transport relays the encoded bytes instead of decoding them
		accept = "Accept-Encoding: " + sc.Enc + "\r\n"
	}
	if sc.Script != "" {
		accept += ScriptHeader + ": " + sc.Script + "\r\n"
	}
	req := fmt.Sprintf("POST %s HTTP/1.1\r\nHost: %s\r\nContent-Type: application/json\r\n%sContent-Length: %d\r\nConnection: close\r\n\r\n%s", target, addr, accept, len(body), body)
	if _, err := c.Write([]byte(req)); err != nil {
		o.Err, o.End = "write", "error"
		return o
	}
	o.SentUs = us(t0)
	abortAt := time.Time{}
	if sc.AbortMs > 0 {
		abortAt = time.Now().Add(time.Duration(sc.AbortMs) * time.Millisecond)
	}
	var head []byte
	var bp *bodyParser
	var enc rle
	next := 0 // next ack threshold
	buf := make([]byte, 64<<10)
	sink := func(p []byte) {
		if o.FirstUs < 0 {
			o.FirstUs = us(t0)
		}
		enc.add(p)
		o.BodyLen += len(p)
		atomic.AddInt64(prog, int64(len(p)))
		for next < len(thresholds) && o.BodyLen >= thresholds[next] {
			close(acks[next])
			next++
		}
	}
	abort := func() {
		o.AbortUs = us(t0)
		o.End, o.EndUs = "aborted", o.AbortUs
		c.Close()
	}
	for {
		dl := deadline
		if !abortAt.IsZero() && abortAt.Before(dl) {
			dl = abortAt
		}
		c.SetReadDeadline(dl)
		n, err := c.Read(buf)
		if n > 0 {
			o.Reads++
			data := buf[:n]
			if bp == nil {
				head = append(head, data...)
				i := bytes.Index(head, []byte("\r\n\r\n"))
				if i >= 0 {
					o.HdrUs = us(t0)
					bp = parseHead(head[:i], &o)
					data = head[i+4:]
					head = nil
					if sc.AbortBytes == 0 {
						abort()
						break
					}
				} else {
					data = nil
				}
			}
			if bp != nil && len(data) > 0 {
				bp.feed(data, sink)
			}
			if bp != nil && bp.complete && (bp.chunked || bp.cl >= 0) {
				// the whole response is here: nothing left to abort
				o.End, o.EndUs = "clean", us(t0)
				break
			}
			if bp != nil && sc.AbortBytes > 0 && o.BodyLen >= sc.AbortBytes {
				abort()
				break
			}
		}
		if err != nil {
			if ne, ok := err.(net.Error); ok && ne.Timeout() {
				if !abortAt.IsZero() && !time.Now().Before(abortAt) {
					abort()
				} else {
					o.End, o.EndUs = "open", us(t0)
				}
				break
			}
			o.EndUs = us(t0)
			switch {
			case err == io.EOF && bp != nil && !bp.chunked && bp.cl < 0:
				o.End = "clean" // close-delimited body
			case err == io.EOF:
				o.End = "closed"
			default:
				o.End = "reset"
			}
			break
		}
	}
	o.RLE = enc.runs
	o.RLEOver = enc.over
	if o.RLE == nil {
		o.RLE = [][2]int{}
	}
	return o
}

func parseHead(h []byte, o *ClientObs) *bodyParser {
	bp := &bodyParser{cl: -1}
	lines := strings.Split(string(h), "\r\n")
	parts := strings.SplitN(lines[0], " ", 3)
	if len(parts) >= 2 {
		o.Status, _ = strconv.Atoi(parts[1])
	}
	for _, l := range lines[1:] {
		kv := strings.SplitN(l, ":", 2)
		if len(kv) != 2 {
			continue
		}
		k, v := strings.ToLower(strings.TrimSpace(kv[0])), strings.TrimSpace(kv[1])
		switch k {
		case "content-type":
			o.CT = v
		case "transfer-encoding":
			if strings.Contains(strings.ToLower(v), "chunked") {
				bp.chunked = true
				o.Chunked = true
			}
		case "content-length":
			if n, err := strconv.ParseInt(v, 10, 64); err == nil {
				bp.cl = n
			}
		}
	}
	if bp.cl == 0 && !bp.chunked {
		bp.complete = true
	}
	return bp
}

// ---------------------------------------------------------------- runner

// Rig is one production stack in front of one timing backend.
type Rig struct {
	S *stack.Stack
	B *Backend
}

func StartRig(engine, profile string, forced bool, timeoutMs int, noResponseTimeout ...bool) (*Rig, error) {
	return StartRigBuf(engine, profile, forced, timeoutMs, 0, noResponseTimeout...)
}

func StartRigBuf(engine, profile string, forced bool, timeoutMs int, streamBuffer int, noResponseTimeout ...bool) (*Rig, error) {
	b := NewBackend()
	prio := 100
	s, err := stack.Start(stack.Opts{Vary: stack.VaryFor("c18.rig", engine, profile, forced, timeoutMs, streamBuffer, noResponseTimeout), Engine: engine, Balancer: "priority", Profile: profile, Mutate: func(cfg *config.Config) {
		cfg.Proxy.ReadTimeout = time.Duration(timeoutMs) * time.Millisecond
		if len(noResponseTimeout) > 0 && noResponseTimeout[0] {
			cfg.Proxy.ResponseTimeout = 0
		}
		if streamBuffer > 0 {
			cfg.Proxy.StreamBufferSize = streamBuffer
		}
		cfg.Discovery.Static.Endpoints = []config.EndpointConfig{{
			URL: b.URL(), Name: "T", Type: "openai", Priority: &prio,
			HealthCheckURL: "/health", ModelURL: "/v1/models", CheckInterval: 10 * time.Minute, CheckTimeout: 2 * time.Second,
		}}
	}})
	if err != nil {
		b.Close()
		return nil, err
	}
	if forced {
		// The engines take their profile from ports.ProxyConfiguration.GetProxyProfile(); push the configured
		// one in through the exported UpdateConfig (everything else as the production wiring set it).
		pc := &proxy.Configuration{
			ConnectionTimeout:   s.Cfg.Proxy.ConnectionTimeout,
			ConnectionKeepAlive: 30 * time.Second,
			ResponseTimeout:     s.Cfg.Proxy.ResponseTimeout,
			ReadTimeout:         s.Cfg.Proxy.ReadTimeout,
			StreamBufferSize:    s.Cfg.Proxy.StreamBufferSize,
			Profile:             profile,
		}
		s.Proxy.UpdateConfig(pc)
	}
	s.SetStatus("T", domain.StatusHealthy)
	if reg, err := s.Disc.GetRegistry(); err == nil { // what a model-discovery round would do (route anthropic names a model)
		reg.RegisterModels(context.Background(), b.URL(), []*domain.ModelInfo{{Name: "m1", Type: "model", LastSeen: time.Now()}})
	}
	r := &Rig{S: s, B: b}
	// warm-up: lazily created per-endpoint pools, breakers and the like exist before the baseline is taken
	w := stack.Do(s.Addr, stack.Request("POST", "/olla/proxy/v1/warm", s.Addr, [][2]string{{"Content-Type", "application/json"}}, []byte("{}"), false), 3*time.Second)
	if w.Status != 200 {
		r.Stop()
		return nil, fmt.Errorf("timing: warm-up request answered %d %s", w.Status, w.Err)
	}
	return r, nil
}

func (r *Rig) Stop() {
	r.S.Stop()
	r.B.Close()
}

// Play runs one scenario on the rig (one scenario at a time per rig).
func (r *Rig) Play(sc *Scenario) *Obs {
	t0 := time.Now()
	acks := make([]chan struct{}, len(sc.Steps))
	thr := make([]int, len(sc.Steps))
	sum := 0
	planned := sc.HdrDelayMs + sc.EndGapMs
	for i, s := range sc.Steps {
		acks[i] = make(chan struct{})
		sum += s.Size
		thr[i] = sum
		planned += s.GapMs + sc.AckMs
	}
	prog := new(int64)
	if sc.Route == "anthropic" {
		thr = nil // acknowledgement by activity, not by byte count
	}
	bo := r.B.Arm(sc, t0, acks, prog)
	deadline := t0.Add(time.Duration(planned+sc.HoldMs+sc.TimeoutMs+1500) * time.Millisecond)
	co := RunClient(r.S.Addr, sc, t0, acks, thr, prog, deadline)
	// the backend finishes its script (a stall is released after HoldMs) — wait for it so that the observation is complete
	select {
	case <-r.B.Done():
	case <-time.After(time.Until(deadline) + 2*time.Second):
	}
	r.S.SetStatus("T", domain.StatusHealthy)
	o := &Obs{Client: co}
	r.B.mu.Lock()
	o.Backend = *bo
	r.B.mu.Unlock()
	if o.Backend.Chunks == nil {
		o.Backend.Chunks = []ChunkObs{}
	}
	return o
}

// Leak is the measured (not proved) leak clause for one batch.
type Leak struct {
	GoBase     int   `json:"go_base"`
	GoAfter    int   `json:"go_after"`
	ConnsBase  int64 `json:"conns_base"`
	ConnsAfter int64 `json:"conns_after"`
	SettleMs   int64 `json:"settle_ms"`
	Scenarios  int   `json:"scenarios"`
}

// stable polls f until it returns the same value three times 25 ms apart (max wait), returning the last value.
func stable(max time.Duration) int {
	prev, same := runtime.NumGoroutine(), 0
	dl := time.Now().Add(max)
	for time.Now().Before(dl) {
		time.Sleep(25 * time.Millisecond)
		cur := runtime.NumGoroutine()
		if cur == prev {
			same++
			if same >= 3 {
				return cur
			}
		} else {
			prev, same = cur, 0
		}
	}
	return prev
}

// RunBatch starts one rig per scenario, takes the goroutine / open-connection baseline, plays all
// scenarios concurrently, waits for quiescence (<= 3 s) and measures again, then stops the rigs.
func RunBatch(scs []*Scenario) ([]*Obs, Leak) {
	n := len(scs)
	out := make([]*Obs, n)
	rigs := make([]*Rig, n)
	var wg sync.WaitGroup
	for i := range scs {
		wg.Add(1)
		go func(i int) {
			defer wg.Done()
			r, err := StartRigBuf(scs[i].Engine, scs[i].Profile, scs[i].Forced, scs[i].TimeoutMs, scs[i].StreamBufferSize, scs[i].NoResponseTimeout)
			if err != nil {
				out[i] = &Obs{StartErr: err.Error()}
				return
			}
			rigs[i] = r
		}(i)
	}
	wg.Wait()
	conns := func() int64 {
		var c int64
		for _, r := range rigs {
			if r != nil {
				c += r.B.OpenConns()
			}
		}
		return c
	}
	lk := Leak{Scenarios: n}
	lk.GoBase = stable(2 * time.Second)
	lk.ConnsBase = conns()
	for i := range scs {
		if rigs[i] == nil {
			continue
		}
		wg.Add(1)
		go func(i int) {
			defer wg.Done()
			out[i] = rigs[i].Play(scs[i])
		}(i)
	}
	wg.Wait()
	t := time.Now()
	for {
		lk.GoAfter, lk.ConnsAfter = runtime.NumGoroutine(), conns()
		if (lk.GoAfter <= lk.GoBase && lk.ConnsAfter <= lk.ConnsBase) || time.Since(t) > 3*time.Second {
			break
		}
		time.Sleep(20 * time.Millisecond)
	}
	lk.SettleMs = time.Since(t).Milliseconds()
	for _, r := range rigs {
		if r != nil {
			wg.Add(1)
			go func(r *Rig) { defer wg.Done(); r.Stop() }(r)
		}
	}
	wg.Wait()
	return out, lk
}
