//go:build verif

// Histories: MANY scripted requests, one after and over the other, on ONE long-lived rig (one production stack, one engine
// instance, one process-wide set of pools) — as opposed to RunBatch's fresh rig per scenario.  Every request is a
// Scenario like any other and is observed the same way (gated backend, incremental client, times since the request's own
// T0); what differs is only that the backend finds the request's script by the name the client sends in X-Verif-Script.
package timing

import (
	"runtime"
	"time"
)

const ScriptHeader = "X-Verif-Script"

type script struct {
	sc    *Scenario
	t0    time.Time
	acks  []chan struct{}
	prog  *int64
	obs   *BackendObs
	taken chan struct{} // closed when the scripted request reached the backend
	done  chan struct{} // closed when the script has been played
	used  bool
}

func (b *Backend) armScript(id string, sc *Scenario, t0 time.Time, acks []chan struct{}, prog *int64) *script {
	s := &script{sc: sc, t0: t0, acks: acks, prog: prog, obs: &BackendObs{HdrUs: -1, EndUs: -1, TornUs: -1},
		taken: make(chan struct{}), done: make(chan struct{})}
	b.mu.Lock()
	if b.scripts == nil {
		b.scripts = map[string]*script{}
	}
	b.scripts[id] = s
	b.mu.Unlock()
	return s
}

// takeScript hands the script out once; a second request under the same name (something retried) is only counted.
func (b *Backend) takeScript(id string) *script {
	b.mu.Lock()
	defer b.mu.Unlock()
	s := b.scripts[id]
	if s == nil {
		return nil
	}
	s.obs.Requests++
	if s.used {
		return nil
	}
	s.used = true
	close(s.taken)
	return s
}

func (b *Backend) dropScript(id string) {
	b.mu.Lock()
	delete(b.scripts, id)
	b.mu.Unlock()
}

// PlayScript runs one scenario on the rig under the name id; any number of them may run at the same time.  It returns
// when the client AND the backend are through with the request (a stall that the proxy does not cut is released by the
// backend after HoldMs).  It does not touch the endpoint's health status.
func (r *Rig) PlayScript(id string, sc *Scenario) *Obs {
	sc.Script = id
	t0 := time.Now()
	acks := make([]chan struct{}, len(sc.Steps))
	thr := make([]int, len(sc.Steps))
	sum := 0
	planned := sc.HdrDelayMs + sc.EndGapMs
	for i, s := range sc.Steps {
		acks[i] = make(chan struct{})
		sum += s.Size
		thr[i] = sum
		planned += s.GapMs + sc.AckMs
	}
	prog := new(int64)
	if sc.Route == "anthropic" {
		thr = nil
	}
	s := r.B.armScript(id, sc, t0, acks, prog)
	defer r.B.dropScript(id)
	deadline := t0.Add(time.Duration(planned+sc.HoldMs+sc.TimeoutMs+3000) * time.Millisecond)
	co := RunClient(r.S.Addr, sc, t0, acks, thr, prog, deadline)
	o := &Obs{Client: co}
	// the client is through; a request that has not reached the backend by now (refused by the proxy: no healthy endpoint,
	// breaker open, …) is given a moment and then reported as it is: Got == false
	select {
	case <-s.taken:
		select {
		case <-s.done:
		case <-time.After(time.Until(deadline) + 3*time.Second):
			o.StartErr = "history: the backend did not finish its script in time (harness)"
			o.Backend = BackendObs{HdrUs: -1, EndUs: -1, TornUs: -1, Chunks: []ChunkObs{}}
			return o
		}
	case <-time.After(1500 * time.Millisecond):
		select {
		case <-s.taken: // it came after all: let it play to its end
			select {
			case <-s.done:
			case <-time.After(time.Until(deadline) + 3*time.Second):
				o.StartErr = "history: the backend did not finish its script in time (harness)"
				o.Backend = BackendObs{HdrUs: -1, EndUs: -1, TornUs: -1, Chunks: []ChunkObs{}}
				return o
			}
		default:
		}
	}
	r.B.mu.Lock()
	o.Backend = *s.obs
	r.B.mu.Unlock()
	if o.Backend.Chunks == nil {
		o.Backend.Chunks = []ChunkObs{}
	}
	return o
}

// Goroutines: the settled goroutine count (same value three times 25 ms apart, at most max).
func Goroutines(max time.Duration) int { return stable(max) }

// SettleLeak polls until the goroutine count and the open backend connections are back at (or below) the base line, at
// most max; it returns what it saw last and how long it took.
func SettleLeak(goBase int, connsBase int64, conns func() int64, max time.Duration) (goAfter int, connsAfter int64, ms int64) {
	t := time.Now()
	for {
		goAfter, connsAfter = runtime.NumGoroutine(), conns()
		if (goAfter <= goBase && connsAfter <= connsBase) || time.Since(t) > max {
			break
		}
		time.Sleep(20 * time.Millisecond)
	}
	return goAfter, connsAfter, time.Since(t).Milliseconds()
}
