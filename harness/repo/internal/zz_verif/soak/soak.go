//go:build verif

package soak

import (
	"bufio"
	"bytes"
	"fmt"
	"net"
	"strings"
	"sync"
	"time"

	"github.com/thushan/olla/internal/core/domain"
	"github.com/thushan/olla/internal/zz_verif/stack"
)

// Run: ONE long-lived stack per engine. In every round some clients go away in the middle of a free-running
// stream while others read a short stream to its end. "A completed stream is delivered whole" must hold for the
// latter whatever happened to earlier requests on the same engine instance (pooled per-stream state, connection
// reuse, …). Returns the observation that is emitted as one case.
func Run(engine string, rounds, aborters, readers int) map[string]any {
	const chunks, chunkSize = 12, 31
	body := func(tag byte) []byte {
		var b bytes.Buffer
		for i := 0; i < chunks; i++ {
			fmt.Fprintf(&b, "data: %c%02d%s\n\n", tag, i, strings.Repeat("x", chunkSize-11))
		}
		return b.Bytes()
	}
	bodyFor := func(nonce string) []byte {
		var b bytes.Buffer
		for i := 0; i < chunks; i++ {
			ev := fmt.Sprintf("data: %02d %s ", i, nonce)
			ev += strings.Repeat("z", chunkSize-2-len(ev))
			b.WriteString(ev + "\n\n")
		}
		return b.Bytes()
	}
	be := stack.NewBackend("S")
	defer be.Close()
	full := body('s')
	var long bytes.Buffer
	for i := 0; i < 4000; i++ {
		fmt.Fprintf(&long, "data: L%05d%s\n\n", i, strings.Repeat("y", chunkSize-14))
	}
	be.SetScript(func(_ int, seen *stack.Seen) stack.Behaviour {
		if seen != nil && bytes.Contains(seen.Body, []byte(`"leave"`)) {
			// for a client that will go away: a long stream produced as fast as the proxy takes it, so the proxy is
			// busy writing and flushing (not parked in a read) when the client disappears
			return stack.Behaviour{Kind: "ok", Status: 200, Headers: [][2]string{{"Content-Type", "text/event-stream"}}, Body: long.Bytes(), Chunked: true, ChunkSz: chunkSize}
		}
		// free-running: chunked, one SSE event per chunk, 1 ms apart (the "pause" kind with k = first event); a reader's
		// stream carries the reader's own nonce in every event, so bytes of somebody else's stream are recognisable
		b := full
		if seen != nil {
			if n := seen.Header["X-Nonce"]; len(n) == 1 {
				b = bodyFor(n[0])
			}
		}
		return stack.Behaviour{Kind: "pause", Status: 200, Headers: [][2]string{{"Content-Type", "text/event-stream"}}, Body: b, Chunked: true, K: chunkSize, StallMs: 1, ChunkSz: chunkSize}
	})
	s, err := stack.Start(stack.Opts{Vary: stack.VaryFor("c18.soak", engine), Engine: engine, Balancer: "priority", EPs: []stack.EP{{Name: "S", Type: "openai", Priority: 1, Backend: be}}})
	if err != nil {
		return map[string]any{"start_err": err.Error()}
	}
	defer s.Stop()
	req := stack.Request("POST", "/olla/proxy/v1/chat/completions", s.Addr, [][2]string{{"Content-Type", "application/json"}}, []byte(`{"stream":true}`), false)
	reqLeave := stack.Request("POST", "/olla/proxy/v1/chat/completions", s.Addr, [][2]string{{"Content-Type", "application/json"}}, []byte(`{"stream":true,"leave":true}`), false)
	truncated, completeOK, aborted, offline, notServed := 0, 0, 0, 0, 0
	notWhole := map[string]string{}
	first := ""
	var mu sync.Mutex
	for r := 0; r < rounds; r++ {
		var wg sync.WaitGroup
		for a := 0; a < aborters; a++ {
			wg.Add(1)
			a := a
			go func() {
				defer wg.Done()
				c, err := net.DialTimeout("tcp", s.Addr, time.Second)
				if err != nil {
					return
				}
				c.SetDeadline(time.Now().Add(3 * time.Second))
				if a%2 == 0 {
					c.Write(req)
				} else {
					c.Write(reqLeave)
				}
				br := bufio.NewReader(c)
				// read until some events have arrived, then go away while the backend keeps sending
				want := 1 + (a/2)*7
				for {
					line, err := br.ReadString('\n')
					if err != nil {
						break
					}
					if strings.HasPrefix(line, "data: ") {
						if want--; want <= 0 {
							break
						}
					}
				}
				c.Close()
				mu.Lock()
				aborted++
				mu.Unlock()
			}()
		}
		wg.Wait()
		// a client that goes away can be taken for a failure of the backend (the write to the client fails with a
		// net.Error, which the retry handler classifies as a connection failure) and the endpoint is then out of
		// rotation until the next health check; the property does not speak about that, so the harness readmits
		// the endpoint the way a successful health check would and counts how often it had to
		if st := s.Statuses()["S"]; st != string(domain.StatusHealthy) {
			offline++
			s.SetStatus("S", domain.StatusHealthy)
		}
		for k := 0; k < readers; k++ {
			wg.Add(1)
			nonce := fmt.Sprintf("n%d-%d", r, k)
			go func() {
				defer wg.Done()
				rq := stack.Request("POST", "/olla/proxy/v1/chat/completions", s.Addr, [][2]string{{"Content-Type", "application/json"}, {"X-Nonce", nonce}}, []byte(`{"stream":true}`), false)
				rp := stack.Do(s.Addr, rq, 5*time.Second)
				mu.Lock()
				want := bodyFor(nonce)
				if rp.Status == 200 && rp.Err == "" && bytes.Equal(rp.Body, want) {
					completeOK++
				} else {
					notWhole[nonce] = fmt.Sprintf("round %d: status %d err '%s', client %s got %d of %d bytes %q", r, rp.Status, rp.Err, nonce, len(rp.Body), len(want), firstN(rp.Body, 160))
				}
				mu.Unlock()
			}()
		}
		wg.Wait()
	}
	// "a completed stream is delivered whole": a reader stays to the end and the backend sends every stream to its
	// end unless it is cut off, so every reader's request that reached the backend is judged; a request that was
	// refused without reaching the backend (endpoint out of rotation, breaker open) started no stream
	completed := map[string]bool{}
	for _, sn := range be.Taken() {
		if n := sn.Header["X-Nonce"]; len(n) == 1 {
			completed[n[0]] = true
		}
	}
	for nonce, what := range notWhole {
		if !completed[nonce] {
			notServed++
			continue
		}
		truncated++
		if first == "" || what < first {
			first = what
		}
	}
	return map[string]any{"rounds": rounds, "aborted": aborted, "endpoint_offline_after_aborts": offline, "not_served": notServed, "complete_whole": completeOK, "complete_not_whole": truncated, "first": first}
}

func firstN(b []byte, n int) string {
	if len(b) > n {
		b = b[:n]
	}
	return string(b)
}
