//go:build verif

// c04: failover. Two families of cases:
//   - "pure": the real core.RetryHandler.ExecuteWithRetry with a scripted proxyFunc (the attempt
//     outcome oracle of the model), a scripted selector (the selection oracle) and a recording
//     ResponseWriter / discovery stub: the implementation's *event trace* is compared with the model's,
//     exhaustively over outcome assignments x selection orders, incl. duplicate endpoint names.
//   - "stack": the production wiring with scripted backends: {ok, refuse, reset0, open, close0, garbage}
//     on up to 3 endpoints x 3 balancers x 2 engines, plus a follow-up request.
package main

import (
	"context"
	"errors"
	"fmt"
	"github.com/thushan/olla/internal/config"
	"github.com/thushan/olla/internal/zz_verif/anth"
	"net"
	"net/http"
	"net/http/httptest"
	"strings"
	"sync"
	"syscall"
	"time"

	"github.com/thushan/olla/internal/adapter/proxy/core"
	"github.com/thushan/olla/internal/core/domain"
	"github.com/thushan/olla/internal/core/ports"
	"github.com/thushan/olla/internal/zz_verif/scen"
	"github.com/thushan/olla/internal/zz_verif/stack"
	"github.com/thushan/olla/internal/zz_verif/vlib"
)

// ---------------------------------------------------------------- pure

type ev struct {
	K string `json:"k"`
	E int    `json:"e"`
	N int    `json:"n,omitempty"` // status or byte count
}

type rec struct {
	mu sync.Mutex
	ev []ev
}

func (r *rec) add(k string, e, n int) { r.mu.Lock(); r.ev = append(r.ev, ev{k, e, n}); r.mu.Unlock() }

type sel struct {
	r    *rec
	ids  map[*domain.Endpoint]int
	pref []int // preference order of ids
}

func (s *sel) Name() string { return "scripted" }
func (s *sel) Select(ctx context.Context, eps []*domain.Endpoint) (*domain.Endpoint, error) {
	for _, p := range s.pref {
		for _, e := range eps {
			if s.ids[e] == p {
				s.r.add("selected", p, 0)
				return e, nil
			}
		}
	}
	return nil, errors.New("no routable endpoints available")
}
func (s *sel) IncrementConnections(e *domain.Endpoint) { s.r.add("inc", s.ids[e], 0) }
func (s *sel) DecrementConnections(e *domain.Endpoint) { s.r.add("dec", s.ids[e], 0) }

type disc struct {
	r    *rec
	urls map[string]int
}

func (d *disc) GetEndpoints(context.Context) ([]*domain.Endpoint, error)        { return nil, nil }
func (d *disc) GetHealthyEndpoints(context.Context) ([]*domain.Endpoint, error) { return nil, nil }
func (d *disc) RefreshEndpoints(context.Context) error                          { return nil }
func (d *disc) UpdateEndpointStatus(_ context.Context, e *domain.Endpoint) error {
	if e.Status == domain.StatusOffline {
		d.r.add("markOffline", d.urls[e.URLString], 0)
	} else {
		d.r.add("statusUpdate:"+string(e.Status), d.urls[e.URLString], 0)
	}
	return nil
}

type rw struct {
	h    http.Header
	r    *rec
	cur  *int
	code int
}

func (w *rw) Header() http.Header { return w.h }
func (w *rw) WriteHeader(c int)   { w.r.add("wroteHeader", *w.cur, c) }
func (w *rw) Write(b []byte) (int, error) {
	w.r.add("wrote", *w.cur, len(b))
	return len(b), nil
}

var outcomes = []string{"ok", "failBeforeConn", "failBeforeOther", "skip", "failAfterConn", "failAfterOther"}

func connErr() error {
	return &net.OpError{Op: "dial", Net: "tcp", Err: &osSyscallErr{syscall.ECONNREFUSED}}
}

type osSyscallErr struct{ e syscall.Errno }

func (o *osSyscallErr) Error() string { return "connect: " + o.e.Error() }
func (o *osSyscallErr) Unwrap() error { return o.e }

func purecase(c *vlib.Cases, names []string, outs []string, pref []int) {
	r := &rec{}
	n := len(outs)
	eps := make([]*domain.Endpoint, n)
	ids := map[*domain.Endpoint]int{}
	urls := map[string]int{}
	for i := 0; i < n; i++ {
		u := fmt.Sprintf("http://h%d:1", i)
		eps[i] = &domain.Endpoint{Name: names[i], URLString: u, Status: domain.StatusHealthy, CheckInterval: 5 * time.Second, BackoffMultiplier: 1}
		ids[eps[i]] = i
		urls[u] = i
	}
	cur := -1
	w := &rw{h: http.Header{}, r: r, cur: &cur}
	s := &sel{r: r, ids: ids, pref: pref}
	h := core.NewRetryHandler(&disc{r: r, urls: urls}, vlib.QuietLogger())
	pf := func(ctx context.Context, w http.ResponseWriter, req *http.Request, e *domain.Endpoint, st *ports.RequestStats) error {
		i := ids[e]
		cur = i
		r.add("contacted", i, 0)
		switch outs[i] {
		case "ok":
			w.WriteHeader(200)
			w.Write([]byte("0123456789"))
			return nil
		case "failBeforeConn":
			return fmt.Errorf("network error after 0.0s - %w (check network connectivity to LLM backend)", connErr())
		case "failBeforeOther":
			return errors.New("connection closed after 0.0s - AI backend ended communication unexpectedly")
		case "skip":
			return fmt.Errorf("%w for endpoint %s", core.ErrCircuitOpen, e.Name)
		case "failAfterConn":
			w.WriteHeader(200)
			w.Write([]byte("01234"))
			return fmt.Errorf("network error after 0.0s - %w (check network connectivity to LLM backend)", connErr())
		default:
			w.WriteHeader(200)
			w.Write([]byte("01234"))
			return errors.New("request failed after 0.0s: unexpected EOF")
		}
	}
	req := httptest.NewRequest("POST", "/v1/chat/completions", strings.NewReader(`{"a":1}`))
	var panicked any
	var err error
	func() {
		defer func() { panicked = recover() }()
		err = h.ExecuteWithRetry(context.Background(), w, req, eps, s, &ports.RequestStats{StartTime: time.Now()}, pf)
	}()
	res := "nil"
	if panicked != nil {
		res = fmt.Sprint("panic: ", panicked)
	} else if err != nil {
		switch {
		case strings.HasPrefix(err.Error(), "all endpoints failed"), strings.HasPrefix(err.Error(), "max attempts"):
			res = "exhausted"
		case strings.HasPrefix(err.Error(), "endpoint selection failed"):
			res = "selectFailed"
		case strings.HasPrefix(err.Error(), "no endpoints available"):
			res = "noEndpoints"
		default:
			res = "failed"
		}
	}
	c.Emit(map[string]any{"kind": "pure", "names": names, "outcomes": outs, "pref": pref, "impl": map[string]any{"trace": r.ev, "result": res}})
}

func perms(n int) [][]int {
	if n == 0 {
		return [][]int{{}}
	}
	var out [][]int
	for _, p := range perms(n - 1) {
		for i := 0; i <= len(p); i++ {
			q := append(append(append([]int{}, p[:i]...), n-1), p[i:]...)
			out = append(out, q)
		}
	}
	return out
}

// ---------------------------------------------------------------- stack

func stackScenarios(tier string, r *vlib.Rng) []*scen.Scenario {
	var out []*scen.Scenario
	names := []string{"A", "B", "C"}
	prios := []int{300, 200, 100}
	kindsAsserted := []string{"ok", "refuse", "reset0", "open"}
	kindsAll := []string{"ok", "refuse", "reset0", "dnsfail", "open", "close0", "garbage"}
	for _, engine := range []string{"sherpa", "olla"} {
		for _, bal := range []string{"priority", "round-robin", "least-connections"} {
			for n := 1; n <= 3; n++ {
				total := 1
				for i := 0; i < n; i++ {
					total *= len(kindsAll)
				}
				for v := 0; v < total; v++ {
					ks := make([]string, n)
					x := v
					asserted := true
					for i := 0; i < n; i++ {
						ks[i] = kindsAll[x%len(kindsAll)]
						x /= len(kindsAll)
						if ks[i] == "close0" || ks[i] == "garbage" {
							asserted = false
						}
					}
					hasOpen := false
					for _, k := range ks {
						if k == "open" {
							hasOpen = true
						}
					}
					if hasOpen && engine != "olla" {
						continue // only the olla engine has a per-endpoint breaker
					}
					// quick: all n<=2, n=3 asserted kinds on priority, sample of the rest
					if tier != "thorough" && n == 3 {
						if !(asserted && bal == "priority") && !r.Chance(1, 10) {
							continue
						}
					}
					_ = kindsAsserted
					sc := &scen.Scenario{Engine: engine, Balancer: bal, Profile: "auto", Method: "POST", Path: "/olla/proxy/v1/chat/completions",
						ReqBody: fmt.Sprintf(`{"messages":[{"role":"user","content":"q%d"}]}`, r.Intn(1000)), Followup: true}
					for i, k := range ks {
						e := scen.EPSpec{Name: names[i], Prio: prios[i]}
						if bal != "priority" {
							e.Prio = 100
						}
						switch k {
						case "ok":
							e.Beh = scen.OkBeh(names[i], 200, 30+r.Intn(100), r.Bool(), "application/json")
						case "open":
							e.Open = true
							e.Beh = scen.OkBeh(names[i], 200, 30+r.Intn(100), r.Bool(), "application/json") // the backend itself works again
						default:
							e.Beh = scen.FaultBeh(names[i], k, 50, 10, false, "application/json")
						}
						e.Beh.Kind = map[bool]string{true: "ok", false: k}[k == "open"]
						sc.EPs = append(sc.EPs, e)
					}
					out = append(out, sc)
				}
			}
		}
	}
	// breaker pre-histories that do not open the breaker: k earlier failures, then a connection-level failure
	for _, bal := range []string{"priority", "round-robin"} {
		for k := 1; k <= 4; k++ {
			for _, kind := range []string{"refuse", "reset0"} {
				for n := 1; n <= 2; n++ {
					sc := &scen.Scenario{Engine: "olla", Balancer: bal, Profile: "auto", Method: "POST", Path: "/olla/proxy/v1/chat/completions",
						ReqBody: fmt.Sprintf(`{"messages":[{"role":"user","content":"h%d"}]}`, r.Intn(1000)), Followup: true}
					e := scen.EPSpec{Name: "A", Prio: 300, PreFail: k, Beh: scen.FaultBeh("A", kind, 50, 10, false, "application/json")}
					sc.EPs = append(sc.EPs, e)
					if n == 2 {
						sc.EPs = append(sc.EPs, scen.EPSpec{Name: "B", Prio: 200, Beh: scen.OkBeh("B", 200, 40, false, "application/json")})
					}
					if bal != "priority" {
						for i := range sc.EPs {
							sc.EPs[i].Prio = 100
						}
					}
					out = append(out, sc)
				}
			}
		}
	}
	// olla engine: the preferred endpoint's breaker was opened by a request history and its window has elapsed, so this
	// request is the recovery probe; the probe fails at connection level. That is a failed attempt like any other: the
	// next candidate serves the request and the endpoint leaves the rotation until a health check readmits it.
	for _, bal := range []string{"priority", "round-robin"} {
		for _, kind := range []string{"refuse", "reset0"} {
			for n := 1; n <= 3; n++ {
				sc := &scen.Scenario{Engine: "olla", Balancer: bal, Profile: "auto", Method: "POST", Path: "/olla/proxy/v1/chat/completions",
					ReqBody: fmt.Sprintf(`{"messages":[{"role":"user","content":"p%d"}]}`, r.Intn(1000)), Followup: true}
				sc.EPs = append(sc.EPs, scen.EPSpec{Name: "A", Prio: 300, HalfOpen: true, Beh: scen.FaultBeh("A", kind, 50, 10, false, "application/json")})
				if n >= 2 {
					sc.EPs = append(sc.EPs, scen.EPSpec{Name: "B", Prio: 200, Beh: scen.OkBeh("B", 200, 40, false, "application/json")})
				}
				if n == 3 {
					sc.EPs = append(sc.EPs, scen.EPSpec{Name: "C", Prio: 100, Beh: scen.OkBeh("C", 200, 40, false, "application/json")})
				}
				if bal != "priority" {
					for i := range sc.EPs {
						sc.EPs[i].Prio = 100
					}
				}
				out = append(out, sc)
			}
		}
	}
	// uploads the inspector cannot hold whole (over 1 MiB), with and without a declared length, that fail over: the next
	// candidate gets the same document, byte for byte
	for _, engine := range []string{"sherpa", "olla"} {
		for _, kind := range []string{"refuse", "reset0"} {
			for _, up := range []struct {
				pad     int
				chunked bool
			}{{1<<20 + 4096, true}, {3 << 20, true}, {2 << 20, false}, {1 << 20, true}, {70000, true},
				// powers of two and their successors up to what the default body limit admits, declared and chunked
				{4<<20 + 1, false}, {8<<20 + 1, true}, {16 << 20, false}, {16<<20 + 1, false}, {32<<20 + 1, true}, {64<<20 + 1, false}} {
				if tier != "thorough" && (kind == "reset0") != (up.pad == 3<<20 || up.pad == 70000 || up.pad == 8<<20+1 || up.pad == 16<<20) {
					continue
				}
				if tier != "thorough" && up.pad > 17<<20 {
					continue // 32 MiB + 1 and above: thorough tier (c01 sends 32 MiB + 1 in its quick tier, with a minute's deadline)
				}
				sc := &scen.Scenario{Engine: engine, Balancer: "priority", Profile: "auto", Method: "POST", Path: "/olla/proxy/v1/chat/completions",
					ReqBody: fmt.Sprintf(`{"messages":[{"role":"user","content":"u%d"}]}`, r.Intn(1000)), ReqPad: up.pad, ReqChunked: up.chunked, Followup: true}
				sc.EPs = append(sc.EPs, scen.EPSpec{Name: "A", Prio: 300, Beh: scen.FaultBeh("A", kind, 50, 10, false, "application/json")})
				sc.EPs = append(sc.EPs, scen.EPSpec{Name: "B", Prio: 200, Beh: scen.OkBeh("B", 200, 40, false, "application/json")})
				out = append(out, sc)
			}
		}
	}
	return out
}

// translationFailover: POST /olla/anthropic/v1/messages, passthrough disabled, two endpoints of the given types; the
// one with the higher priority refuses connections, the other answers. Four requests (which candidate comes first in
// the handler's list is up to map iteration order), the refusing endpoint readmitted before each.
func translationFailover(engine string, ts [2]string) map[string]any {
	var bes []*stack.Backend
	var eps []stack.EP
	for i, t := range ts {
		b := stack.NewBackend(string(rune('A' + i)))
		name := b.Name
		b.SetScript(func(_ int, sn *stack.Seen) stack.Behaviour { return anth.OKAnswer(name, sn) })
		bes = append(bes, b)
		eps = append(eps, stack.EP{Name: b.Name, Type: t, Priority: 300 - 100*i, Backend: b})
	}
	defer func() {
		for _, b := range bes {
			b.Close()
		}
	}()
	s, err := stack.Start(stack.Opts{Vary: stack.VaryFor("c04.xroute", engine, ts), Engine: engine, Balancer: "priority", EPs: eps, Mutate: func(cfg *config.Config) {
		cfg.Translators.Anthropic.Enabled = true
		cfg.Translators.Anthropic.PassthroughEnabled = false
	}})
	if err != nil {
		return map[string]any{"start_err": err.Error()}
	}
	defer s.Stop()
	for _, b := range bes {
		if err := anth.Register(s, b, []string{anth.Model}); err != nil {
			return map[string]any{"start_err": "register models: " + err.Error()}
		}
	}
	deadline := time.Now().Add(4 * time.Second)
	for !anth.Routable(s, bes, anth.Model) {
		if time.Now().After(deadline) {
			return map[string]any{"start_err": "model catalogue did not settle"}
		}
		time.Sleep(5 * time.Millisecond)
	}
	bes[0].Refuse()
	var reqs []map[string]any
	for k := 0; k < 4; k++ { // fewer than the olla engine's breaker threshold: the refusing endpoint is tried, not skipped
		s.SetStatus("A", domain.StatusHealthy)
		s.SetStatus("B", domain.StatusHealthy)
		for _, b := range bes {
			b.Taken()
		}
		body := anth.AnthropicBody(anth.Model, k%2 == 1, fmt.Sprintf("x%d", k))
		r := stack.Do(s.Addr, stack.Request("POST", "/olla/anthropic/v1/messages", s.Addr, [][2]string{{"Content-Type", "application/json"}, {"anthropic-version", "2023-06-01"}}, body, false), 3*time.Second)
		reqs = append(reqs, map[string]any{"status": r.Status, "err": r.Err, "working_backend_requests": len(bes[1].Taken()), "offline_after": s.Statuses()["A"] == "offline"})
	}
	return map[string]any{"reqs": reqs}
}

func main() {
	tier := vlib.Tier()
	r := vlib.NewRng(vlib.Seed())
	c := vlib.OpenCases("cases.jsonl")

	// pure: exhaustive over outcomes^n x selection orders, n<=3 (n=4 sampled), unique and duplicate names
	purecase(c, []string{}, []string{}, []int{})
	for n := 1; n <= 3; n++ {
		total := 1
		for i := 0; i < n; i++ {
			total *= len(outcomes)
		}
		for v := 0; v < total; v++ {
			outs := make([]string, n)
			x := v
			for i := 0; i < n; i++ {
				outs[i] = outcomes[x%len(outcomes)]
				x /= len(outcomes)
			}
			for _, p := range perms(n) {
				names := []string{"A", "B", "C"}[:n]
				purecase(c, names, outs, p)
				c.Count(fmt.Sprintf("pure.n%d", n))
				if n >= 2 {
					dup := []string{"same", "same", "same"}[:n]
					if v%3 == 0 {
						dup = []string{"", "", ""}[:n]
					}
					purecase(c, dup, outs, p)
					c.Count(fmt.Sprintf("pure.dupnames.n%d", n))
				}
			}
		}
	}
	n4 := 300
	if tier == "thorough" {
		n4 = 20000
	}
	for i := 0; i < n4; i++ {
		outs := make([]string, 4)
		for j := range outs {
			outs[j] = vlib.Pick(r, outcomes)
		}
		p := vlib.Pick(r, perms(4))
		names := []string{"A", "B", "C", "D"}
		if r.Chance(1, 3) {
			names = []string{"x", "x", "y", "y"}
		}
		purecase(c, names, outs, p)
		c.Count("pure.n4")
	}

	// stack
	scs := stackScenarios(tier, r)
	for i, sc := range scs { // failover is the same promise whatever size the engines read in
		if i%4 == 1 {
			sc.StreamBufferSize = vlib.Pick(r, []int{1024, 16384, 65536})
		}
		sc.Vary = stack.VaryFor("c04", i)
	}
	out := make([]*scen.Obs, len(scs))
	scen.ParallelMap(len(scs), 16, func(i int) { out[i] = scen.Run(scs[i]) })
	for i, sc := range scs {
		c.Count("stack." + sc.Engine + "." + sc.Balancer)
		c.Emit(map[string]any{"kind": "stack", "scenario": sc, "impl": out[i]})
	}
	// the same promise on the Anthropic translation route: mixed deployments (endpoint types with and without native
	// Anthropic support), passthrough disabled, the preferred endpoint refuses connections, the other one works
	for _, engine := range []string{"sherpa", "olla"} {
		for _, ts := range [][2]string{{"vllm", "sglang"}, {"sglang", "vllm"}, {"ollama", "openai-compatible"}, {"lm-studio", "lemonade"}, {"vllm", "ollama"}} {
			c.Emit(map[string]any{"kind": "xroute", "engine": engine, "types": ts, "impl": translationFailover(engine, ts)})
			c.Count("xroute." + engine)
		}
	}
	c.Close(map[string]any{"exhaustive": true,
		"exhaustive_note": "pure: all 6^n outcome assignments x n! selection orders for n<=3 with unique and duplicate/empty endpoint names; stack: all assignments of {ok,refuse,reset0,open,close0,garbage} to n<=2 endpoints x 3 balancers x 2 engines (n=3: asserted kinds on priority exhaustive, rest sampled in quick; all in thorough)"})
	_ = stack.Do
}
