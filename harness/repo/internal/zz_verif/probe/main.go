//go:build verif

package main

import (
	"fmt"
	"time"

	"github.com/thushan/olla/internal/zz_verif/stack"
)

func main() {
	b := stack.NewBackend("A")
	t0 := time.Now()
	s, err := stack.Start(stack.Opts{Engine: "olla", Balancer: "priority", EPs: []stack.EP{{Name: "A", Priority: 1, Backend: b}}})
	fmt.Println("start", time.Since(t0), err)
	t0 = time.Now()
	r := stack.Do(s.Addr, stack.Request("POST", "/olla/proxy/v1/chat/completions", s.Addr, nil, []byte("{}"), false), 3*time.Second)
	fmt.Println("do", time.Since(t0), r.Status, r.Err, string(r.Body))
	t0 = time.Now()
	s.Stop()
	fmt.Println("stop", time.Since(t0))
}
