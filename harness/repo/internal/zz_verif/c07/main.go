//go:build verif

// c07: correspondence harness for the health checker (property C07).
//
// Per history: a REAL discovery.StaticEndpointRepository with one endpoint (LoadFromConfig), a REAL
// health.HTTPHealthChecker (and through it the real HealthClient and health.CircuitBreaker) with a
// scripted HTTPClient, and a REAL core.RetryHandler for proxy-detected failures.
//
//	check o   = RunHealthCheck (the exported forced round)
//	sched o   = one firing of the scheduler ticker (performHealthChecks, via zz_verif_export.go)
//	proxyFail = RetryHandler.ExecuteWithRetry with a proxy function that fails with ECONNREFUSED
//	tick d    = stored stamps move d into the past: breaker lastFailure/lastAttempt (accessor) and
//	            the record's LastChecked/NextCheckTime (through the exported UpdateEndpoint)
//
// After every operation the record (Status, ConsecutiveFailures, BackoffMultiplier,
// NextCheckTime-LastChecked), the breaker state, whether the scripted client was called, and the
// recovery callbacks attributed to that operation are written down.
package main

import (
	"fmt"
	"context"
	"errors"
	"io"
	"net"
	"net/http"
	"net/http/httptest"
	"net/url"
	"os"
	"runtime"
	"strings"
	"sync"
	"sync/atomic"
	"syscall"
	"time"

	"github.com/thushan/olla/internal/adapter/discovery"
	"github.com/thushan/olla/internal/adapter/health"
	"github.com/thushan/olla/internal/adapter/proxy/core"
	"github.com/thushan/olla/internal/adapter/registry/profile"
	"github.com/thushan/olla/internal/config"
	"github.com/thushan/olla/internal/core/domain"
	"github.com/thushan/olla/internal/core/ports"
	"github.com/thushan/olla/internal/zz_verif/stack"
	"github.com/thushan/olla/internal/zz_verif/vlib"
)

// ---------------------------------------------------------------- operations
//
// op = [kind, arg]: kind 0 check, 1 sched, 2 proxyFail, 3 tick (arg = ns),
// 4 tick by the pending delay (NextCheckTime-LastChecked; arg filled in with the value used).
// outcome arg: 100..999 HTTP status (fast); 100000+code HTTP status slower than SlowResponseThreshold;
// 1 connection error, not retried flavour (url.Error{context.Canceled});  11 ECONNREFUSED (retried by the client)
// 2 timeout, not retried flavour (url.Error{context.DeadlineExceeded});    12 dial timeout (retried)
// 3 other error (not a net.Error)
const (
	kCheck = iota
	kSched
	kProxyFail
	kTick
	kTickDue
)

type op [2]int64

const hURL = "http://verif.invalid:1"

// ---------------------------------------------------------------- scripted HTTP client

type scriptClient struct {
	next  int64
	calls int64
}

func (c *scriptClient) Do(req *http.Request) (*http.Response, error) {
	atomic.AddInt64(&c.calls, 1)
	o := atomic.LoadInt64(&c.next)
	u := req.URL.String()
	switch {
	case o >= 100000:
		time.Sleep(health.SlowResponseThreshold + 60*time.Millisecond)
		return &http.Response{StatusCode: int(o - 100000), Body: http.NoBody, Header: http.Header{}, Request: req}, nil
	case o >= 100:
		return &http.Response{StatusCode: int(o), Body: io.NopCloser(strings.NewReader("{}")), Header: http.Header{}, Request: req}, nil
	case o == 1:
		return nil, &url.Error{Op: "Get", URL: u, Err: context.Canceled}
	case o == 11:
		return nil, &url.Error{Op: "Get", URL: u, Err: &net.OpError{Op: "dial", Net: "tcp", Err: os.NewSyscallError("connect", syscall.ECONNREFUSED)}}
	case o == 2:
		return nil, &url.Error{Op: "Get", URL: u, Err: context.DeadlineExceeded}
	case o == 12:
		return nil, &url.Error{Op: "Get", URL: u, Err: &net.OpError{Op: "dial", Net: "tcp", Err: os.ErrDeadlineExceeded}}
	default:
		return nil, errors.New("malformed HTTP response")
	}
}

// crowdClient: a health client whose answers for some hosts hang until released (or until the probe's context ends)
type crowdClient struct {
	mu      sync.Mutex
	slow    map[string]bool
	release chan struct{}
	hits    map[string]int
}

func (c *crowdClient) Do(req *http.Request) (*http.Response, error) {
	c.mu.Lock()
	c.hits[req.URL.Host]++
	slow := c.slow[req.URL.Host]
	rel := c.release
	c.mu.Unlock()
	if slow {
		select {
		case <-rel:
		case <-req.Context().Done():
			return nil, &url.Error{Op: "Get", URL: req.URL.String(), Err: req.Context().Err()}
		}
	}
	return &http.Response{StatusCode: 200, Body: io.NopCloser(strings.NewReader("{}")), Header: http.Header{}, Request: req}, nil
}

// crowdCase: more endpoints are due in one round than there are check slots, the slot holders are slow, and the round's
// deadline passes with endpoints still queueing for a slot.  Afterwards the backends answer promptly: every endpoint that
// is due is probed by the next round (scheduled or forced), nobody is forgotten.
func crowdCase(n, slowN int, forced bool) map[string]any {
	cc := &crowdClient{slow: map[string]bool{}, release: make(chan struct{}), hits: map[string]int{}}
	repo := discovery.NewStaticEndpointRepositoryWithFactory(factory)
	var cfgs []config.EndpointConfig
	for i := 0; i < n; i++ {
		host := fmt.Sprintf("10.9.0.%d:8000", i+1)
		cfgs = append(cfgs, config.EndpointConfig{Name: fmt.Sprintf("e%d", i), URL: "http://" + host, HealthCheckURL: "/health", ModelURL: "/models", CheckInterval: 60 * time.Second, CheckTimeout: 30 * time.Second})
		if i < slowN {
			cc.slow[host] = true
		}
	}
	if err := repo.LoadFromConfig(context.Background(), cfgs); err != nil {
		return map[string]any{"setup_err": err.Error()}
	}
	chk := health.NewHTTPHealthChecker(repo, vlib.QuietLogger(), cc)
	health.VerifMarkRunning(chk)
	round := func(d time.Duration) {
		ctx, cancel := context.WithTimeout(context.Background(), d)
		defer cancel()
		if forced {
			_ = chk.RunHealthCheck(ctx, false)
		} else {
			health.VerifTickerRound(chk, ctx)
		}
	}
	// round 1: the slot holders hang, the round's deadline passes
	round(150 * time.Millisecond)
	// the backends are fine again; everything is made due
	cc.mu.Lock()
	close(cc.release)
	cc.slow = map[string]bool{}
	first := map[string]int{}
	for k, v := range cc.hits {
		first[k] = v
	}
	cc.mu.Unlock()
	time.Sleep(30 * time.Millisecond)
	var probed, healthy []bool
	for r := 0; r < 3; r++ {
		eps, _ := repo.GetAll(context.Background())
		for _, e := range eps {
			cp := *e
			cp.NextCheckTime = time.Now().Add(-time.Second)
			_ = repo.UpdateEndpoint(context.Background(), &cp)
		}
		round(5 * time.Second)
	}
	eps, _ := repo.GetAll(context.Background())
	byName := map[string]*domain.Endpoint{}
	for _, e := range eps {
		byName[e.Name] = e
	}
	cc.mu.Lock()
	for i := 0; i < n; i++ {
		host := fmt.Sprintf("10.9.0.%d:8000", i+1)
		probed = append(probed, cc.hits[host] > first[host])
		healthy = append(healthy, byName[fmt.Sprintf("e%d", i)] != nil && byName[fmt.Sprintf("e%d", i)].Status == domain.StatusHealthy)
	}
	cc.mu.Unlock()
	return map[string]any{"probed_later": probed, "healthy": healthy}
}

// ---------------------------------------------------------------- logger that counts "recovered" decisions

// ---------------------------------------------------------------- glue the proxy layer needs

type discoAdapter struct{ repo domain.EndpointRepository }

func (a discoAdapter) GetEndpoints(ctx context.Context) ([]*domain.Endpoint, error) {
	return a.repo.GetAll(ctx)
}
func (a discoAdapter) GetHealthyEndpoints(ctx context.Context) ([]*domain.Endpoint, error) {
	return a.repo.GetHealthy(ctx)
}
func (a discoAdapter) RefreshEndpoints(context.Context) error { return nil }
func (a discoAdapter) UpdateEndpointStatus(ctx context.Context, e *domain.Endpoint) error {
	return a.repo.UpdateEndpoint(ctx, e)
}

type firstSelector struct{}

func (firstSelector) Select(_ context.Context, eps []*domain.Endpoint) (*domain.Endpoint, error) {
	if len(eps) == 0 {
		return nil, errors.New("none")
	}
	return eps[0], nil
}
func (firstSelector) Name() string                          { return "first" }
func (firstSelector) IncrementConnections(*domain.Endpoint) {}
func (firstSelector) DecrementConnections(*domain.Endpoint) {}

// ---------------------------------------------------------------- one endpoint under test

var factory *profile.Factory

type world struct {
	repo      *discovery.StaticEndpointRepository
	chk       *health.HTTPHealthChecker
	cb        *health.CircuitBreaker
	client    *scriptClient
	retry     *core.RetryHandler
	hcURL     string
	expected  int64 // not-healthy -> healthy transitions seen in the repository (only used to know how long to wait)
	cbStarted int64 // callbacks entered
	cbDone    int64 // callbacks returned
	mu        sync.Mutex
	cbStamps  []int64 // LastChecked (UnixNano) of the endpoint copy each callback received
}

func newWorld(interval, timeout time.Duration) (*world, error) {
	w := &world{client: &scriptClient{}}
	w.repo = discovery.NewStaticEndpointRepositoryWithFactory(factory)
	err := w.repo.LoadFromConfig(context.Background(), []config.EndpointConfig{{
		Name: "e", URL: hURL, HealthCheckURL: "/health", ModelURL: "/models", CheckInterval: interval, CheckTimeout: timeout}})
	if err != nil {
		return nil, err
	}
	w.chk = health.NewHTTPHealthChecker(w.repo, vlib.QuietLogger(), w.client)
	w.chk.SetRecoveryCallback(health.RecoveryCallbackFunc(func(cbCtx context.Context, ep *domain.Endpoint) error {
		// the production callback (model re-discovery) does I/O with the context it is handed: a callback whose
		// context is already dead when it gets going re-discovers nothing and is not counted as one
		atomic.AddInt64(&w.cbStarted, 1)
		defer atomic.AddInt64(&w.cbDone, 1)
		select {
		case <-cbCtx.Done():
			return cbCtx.Err()
		case <-time.After(2 * time.Millisecond):
		}
		w.mu.Lock()
		w.cbStamps = append(w.cbStamps, ep.LastChecked.UnixNano())
		w.mu.Unlock()
		return nil
	}))
	health.VerifMarkRunning(w.chk)
	w.cb = health.VerifBreakerOf(w.chk)
	w.retry = core.NewRetryHandler(discoAdapter{w.repo}, vlib.QuietLogger())
	eps, _ := w.repo.GetAll(context.Background())
	w.hcURL = eps[0].GetHealthCheckURLString()
	return w, nil
}

func (w *world) ep() *domain.Endpoint {
	eps, _ := w.repo.GetAll(context.Background())
	return eps[0]
}

func (w *world) tick(d time.Duration) {
	health.VerifRewind(w.cb, w.hcURL, d)
	e := w.ep()
	if !e.LastChecked.IsZero() {
		e.LastChecked = e.LastChecked.Add(-d)
	}
	e.NextCheckTime = e.NextCheckTime.Add(-d)
	_ = w.repo.UpdateEndpoint(context.Background(), e)
}

var statusIdx = map[domain.EndpointStatus]int64{domain.StatusHealthy: 0, domain.StatusBusy: 1, domain.StatusOffline: 2,
	domain.StatusWarming: 3, domain.StatusUnhealthy: 4, domain.StatusUnknown: 5}

const obsW = 10 // ints per step: ran reached status delay fired failures mult cbFailures cbOpen cbAttempt

// runOnce executes a history; returns ops (tick-due arguments filled in) and flat observations.
func runOnce(interval, timeout time.Duration, ops []op) (outOps []op, obs []int64, slowest time.Duration, err error) {
	defer func() {
		if r := recover(); r != nil {
			err = errors.New("panic")
		}
	}()
	w, err := newWorld(interval, timeout)
	if err != nil {
		return nil, nil, 0, err
	}
	ctx := context.Background()
	outOps = make([]op, len(ops))
	stamps := make([]int64, len(ops)) // LastChecked written by step i (0 = record not rewritten)
	obs = make([]int64, 0, obsW*len(ops))
	lastEnd := time.Now()
	for i, o := range ops {
		outOps[i] = o
		before := w.ep()
		callsBefore := atomic.LoadInt64(&w.client.calls)
		// real time that passed since the previous operation ended must stay negligible
		if gap := time.Since(lastEnd); gap > slowest {
			slowest = gap
		}
		switch o[0] {
		case kCheck:
			atomic.StoreInt64(&w.client.next, o[1])
			_ = w.chk.RunHealthCheck(ctx, false)
		case kSched:
			atomic.StoreInt64(&w.client.next, o[1])
			// exactly what healthCheckLoop does on a ticker firing: a per-round context, cancelled as soon as the round returns
			roundCtx, cancelRound := context.WithTimeout(context.Background(), health.DefaultHealthCheckInterval/2)
			health.VerifTickerRound(w.chk, roundCtx)
			cancelRound()
		case kProxyFail:
			snap := w.ep()
			req := httptest.NewRequest(http.MethodGet, "/olla/proxy/v1/models", nil)
			_ = w.retry.ExecuteWithRetry(ctx, httptest.NewRecorder(), req, []*domain.Endpoint{snap}, firstSelector{}, &ports.RequestStats{StartTime: time.Now()},
				func(context.Context, http.ResponseWriter, *http.Request, *domain.Endpoint, *ports.RequestStats) error {
					return &net.OpError{Op: "dial", Net: "tcp", Err: os.NewSyscallError("connect", syscall.ECONNREFUSED)}
				})
		case kTick:
			w.tick(time.Duration(o[1]))
		case kTickDue:
			d := before.NextCheckTime.Sub(before.LastChecked)
			if before.LastChecked.IsZero() || d < 0 {
				d = 0
			}
			outOps[i][1] = int64(d)
			w.tick(d)
		}
		lastEnd = time.Now()
		after := w.ep()
		ran := int64(0)
		if (o[0] == kCheck || o[0] == kSched || o[0] == kProxyFail) && !after.LastChecked.Equal(before.LastChecked) {
			ran = 1
			stamps[i] = after.LastChecked.UnixNano()
			if after.Status == domain.StatusHealthy && before.Status != domain.StatusHealthy && before.Status != domain.StatusUnknown {
				w.expected++
			}
		}
		reached := int64(0)
		if atomic.LoadInt64(&w.client.calls) > callsBefore {
			reached = 1
		}
		delay := int64(0)
		if !after.LastChecked.IsZero() {
			delay = int64(after.NextCheckTime.Sub(after.LastChecked))
		}
		f, _, la, open, _ := health.VerifPeek(w.cb, w.hcURL)
		att := int64(0)
		if la != 0 {
			att = 1
		}
		obs = append(obs, ran, reached, statusIdx[after.Status], delay, 0, int64(after.ConsecutiveFailures), int64(after.BackoffMultiplier), f, int64(open), att)
	}
	// recovery callbacks run in their own goroutines. How long to wait is decided from what can be seen from
	// outside, never from log lines: every callback that was entered must have returned, and as many must have
	// come as the repository showed recoveries (a missing one is waited for up to 2 s before it is reported
	// missing); then a short grace period for callbacks nobody expected.
	deadline := time.Now().Add(2 * time.Second)
	settled := func() bool {
		done, started := atomic.LoadInt64(&w.cbDone), atomic.LoadInt64(&w.cbStarted)
		return done >= started && done >= w.expected
	}
	for time.Now().Before(deadline) && !settled() {
		time.Sleep(200 * time.Microsecond)
	}
	time.Sleep(3 * time.Millisecond)
	for time.Now().Before(deadline) && atomic.LoadInt64(&w.cbDone) < atomic.LoadInt64(&w.cbStarted) {
		time.Sleep(200 * time.Microsecond)
	}
	w.mu.Lock()
	for _, s := range w.cbStamps {
		attributed := false
		for i := range stamps {
			if stamps[i] == s && stamps[i] != 0 {
				obs[obsW*i+4]++
				attributed = true
				break
			}
		}
		if !attributed && len(ops) > 0 {
			obs[obsW*(len(ops)-1)+4] += 1000 // a callback nobody asked for
		}
	}
	w.mu.Unlock()
	return outOps, obs, slowest, nil
}

var reruns, dropped int64

// run re-executes a history whose operations were separated by more than 20 ms of real time
// (a descheduled goroutine), so that simulated and real elapsed times agree to well below the
// 50 ms slack the driver applies at time boundaries.
func run(interval, timeout time.Duration, ops []op) ([]op, []int64, bool) {
	for i := 0; ; i++ {
		o, obs, slowest, err := runOnce(interval, timeout, ops)
		if err != nil {
			return o, obs, false
		}
		if slowest < 20*time.Millisecond {
			return o, obs, true
		}
		if i >= 4 {
			atomic.AddInt64(&dropped, 1)
			return o, obs, false
		}
		atomic.AddInt64(&reruns, 1)
	}
}

type job struct {
	interval, timeout time.Duration
	ideal             bool
	ops               []op
	bucket            string
}

type result struct {
	job
	outOps []op
	obs    []int64
	ok     bool
}

func runAll(jobs []job, workers int) []result {
	res := make([]result, len(jobs))
	var wg sync.WaitGroup
	next := int64(-1)
	for w := 0; w < workers; w++ {
		wg.Add(1)
		go func() {
			defer wg.Done()
			for {
				i := int(atomic.AddInt64(&next, 1))
				if i >= len(jobs) {
					return
				}
				o, obs, ok := run(jobs[i].interval, jobs[i].timeout, jobs[i].ops)
				res[i] = result{job: jobs[i], outOps: o, obs: obs, ok: ok}
			}
		}()
	}
	wg.Wait()
	return res
}

func emit(c *vlib.Cases, rs []result) {
	for _, r := range rs {
		if !r.ok {
			c.Count("dropped.timing")
			continue
		}
		c.Emit(map[string]any{"kind": "hist", "interval": int64(r.interval), "ideal": r.ideal, "ops": r.outOps, "obs": r.obs})
		c.Count(r.bucket)
	}
}

func timeoutFor(interval time.Duration) time.Duration {
	t := interval / 2
	if t > discovery.MaxHealthCheckTimeout {
		t = discovery.MaxHealthCheckTimeout
	}
	return t
}

// mode 0: ideal scheduler (tick by the pending delay, forced check)
// mode 1: forced rounds back to back (no time passes)
// mode 2: scheduler firings 31 s apart (check only when due)
func expand(outcomes []int64, mode int) []op {
	var ops []op
	for _, o := range outcomes {
		switch mode {
		case 0:
			ops = append(ops, op{kTickDue, 0}, op{kCheck, o})
		case 1:
			ops = append(ops, op{kCheck, o})
		default:
			ops = append(ops, op{kTick, int64(31 * time.Second)}, op{kSched, o})
		}
	}
	return ops
}

func words(alpha []int64, n int, f func([]int64)) {
	cur := make([]int64, n)
	var rec func(i int)
	rec = func(i int) {
		if i == n {
			f(append([]int64{}, cur...))
			return
		}
		for _, a := range alpha {
			cur[i] = a
			rec(i + 1)
		}
	}
	rec(0)
}

func sec(f float64) time.Duration { return time.Duration(f * float64(time.Second)) }

// loopScenario: the production wiring (app.CreateAndStartServiceManager), one endpoint whose backend refuses
// connections while the stack starts and accepts them from then on. Nothing drives the checker here: the
// background loop the discovery service starts must come back to the endpoint by itself ("every configured
// endpoint keeps being probed for real at bounded intervals ... becomes routable again on the first probe
// that succeeds"). The loop's ticker period is DefaultHealthCheckInterval, so this takes about that long.
func loopScenario() map[string]any {
	var res map[string]any
	for try := 0; try < 3; try++ {
		res = loopScenario1()
		// the scenario only says something if the endpoint was down when the stack had started
		if st, _ := res["status_at_start"].(string); st != string(domain.StatusHealthy) {
			break
		}
	}
	return res
}

func loopScenario1() map[string]any {
	b := stack.NewBackend("L")
	defer b.Close()
	b.SetBehaviour(stack.Behaviour{Kind: "ok", Status: 200, Headers: [][2]string{{"Content-Type", "application/json"}}, Body: []byte("{}")})
	b.Refuse()
	s, err := stack.Start(stack.Opts{Engine: "sherpa", Balancer: "priority", EPs: []stack.EP{{Name: "L", Type: "openai", Priority: 100, Backend: b, Interval: 2 * time.Second, Timeout: time.Second}}})
	if err != nil {
		return map[string]any{"start_err": err.Error()}
	}
	defer s.Stop()
	time.Sleep(300 * time.Millisecond) // the start-up round has run against the refusing backend
	before := s.Statuses()["L"]
	b.Listen()
	hits0 := b.HealthHits()
	t0 := time.Now()
	bound := health.DefaultHealthCheckInterval + 15*time.Second
	status := before
	for time.Since(t0) < bound {
		status = s.Statuses()["L"]
		if status == string(domain.StatusHealthy) {
			break
		}
		time.Sleep(100 * time.Millisecond)
	}
	return map[string]any{"status_at_start": before, "status": status, "probes": b.HealthHits() - hits0, "waited_ms": time.Since(t0).Milliseconds(), "bound_ms": bound.Milliseconds()}
}

func main() {
	tier := vlib.Tier()
	thorough := tier == "thorough"
	r := vlib.NewRng(vlib.Seed())
	c := vlib.OpenCases("cases.jsonl")
	// RunHealthCheck prints the endpoint table to stdout on every round
	if dn, err := os.OpenFile(os.DevNull, os.O_WRONLY, 0); err == nil {
		os.Stdout = dn
	}
	var err error
	factory, err = profile.NewFactoryWithDefaults()
	if err != nil {
		factory, _ = profile.NewFactory("")
	}
	if rp := vlib.ReplayPath(); rp != "" {
		replay(c, rp)
		c.Close(map[string]any{"replay": rp})
		return
	}
	loopRes := make(chan map[string]any, 1)
	go func() { loopRes <- loopScenario() }()
	workers := 4 * runtime.GOMAXPROCS(0)
	if workers > 64 {
		workers = 64
	}

	const (
		ok      = 200
		notFnd  = 404
		unavail = 503
		netE    = 1
		tmoE    = 2
		netRetr = 11
		tmoRetr = 12
		other   = 3
	)
	_, bto := health.VerifBreakerConfig(health.NewCircuitBreaker())
	T := func(d time.Duration) op { return op{kTick, int64(d)} }
	C := func(o int64) op { return op{kCheck, o} }
	S := func(o int64) op { return op{kSched, o} }
	due := op{kTickDue, 0}
	pf := op{kProxyFail, 0}

	// ---- slow answers (each costs SlowResponseThreshold of real time): started first, in the background
	var slowJobs []job
	slowJobs = append(slowJobs,
		job{sec(5), sec(2), false, []op{C(ok), C(100000 + ok), C(ok)}, "slow"},
		job{sec(5), sec(2), true, []op{due, C(netE), due, C(100000 + ok), due, C(ok)}, "slow"},
		job{sec(5), sec(2), false, []op{C(100000 + unavail), C(ok)}, "slow"})
	if thorough {
		slowJobs = append(slowJobs,
			job{sec(5), sec(2), true, []op{due, C(100000 + ok), due, C(100000 + ok), due, C(100000 + ok), due, C(ok)}, "slow"},
			job{sec(5), sec(2), false, []op{C(100000 + 204), C(100000 + 404), C(ok), pf, C(100000 + 299)}, "slow"})
	}
	var slowRes []result
	var slowWG sync.WaitGroup
	slowWG.Add(1)
	go func() { defer slowWG.Done(); slowRes = runAll(slowJobs, len(slowJobs)) }()

	var jobs []job
	add := func(iv time.Duration, ideal bool, bucket string, ops ...op) {
		jobs = append(jobs, job{iv, timeoutFor(iv), ideal, ops, bucket})
	}
	// ---- corner cases and known witnesses first
	add(sec(5), false, "corpus")
	add(sec(5), false, "corpus", C(ok))
	add(sec(5), false, "corpus", C(notFnd), C(ok), C(ok))                    // recovery fires once
	add(sec(5), false, "corpus", C(ok), C(ok), C(netE), C(ok))               // initial unknown->healthy: no callback; later one
	add(sec(5), true, "corpus", due, C(netE), due, C(netE), due, C(netE), due, C(netE), due, C(netE), due, C(netE), due, C(netE), due, C(ok)) // 1,2,4,8,12,12 and the breaker in between
	add(sec(120), true, "corpus", due, C(netE), due, C(netE), due, C(ok))    // interval > cap: first failure is not capped
	for _, iv := range []time.Duration{sec(1), sec(2.3), sec(4.9)} { // small intervals: the multiplier cap (12) is visible below the 60 s cap
		var ops []op
		for i := 0; i < 8; i++ {
			ops = append(ops, due, C([]int64{netE, unavail, tmoE}[i%3]))
		}
		ops = append(ops, due, C(ok), due, C(notFnd), due, C(ok))
		add(iv, true, "corpus", ops...)
		var pops []op
		pops = append(pops, C(ok))
		for i := 0; i < 7; i++ {
			pops = append(pops, pf)
		}
		add(iv, false, "corpus", pops...)
	}
	add(sec(61), false, "corpus", C(ok), pf, C(ok))                          // interval > cap through the proxy path (capped there)
	add(sec(5), false, "corpus", C(ok), pf, pf, pf, C(ok))                   // proxy failures back off like failed checks
	add(sec(5), false, "corpus", C(netE), C(netE), C(netE), C(ok), T(bto-time.Second), C(ok), T(2*time.Second), C(ok)) // breaker short-circuits, then lets a probe through
	add(sec(5), false, "corpus", C(netE), C(netE), C(netE), T(bto+time.Second), C(unavail), C(ok), T(bto+time.Second), C(ok))
	add(sec(5), false, "corpus", S(ok), S(ok), T(sec(4.5)), S(netE), T(sec(1)), S(netE))                             // scheduler skips what is not due
	// intervals above the 60 s cap: the scheduler comes back when the (capped) record says so, not an interval later
	for _, iv := range []float64{120, 300, 61} {
		add(sec(iv), false, "corpus", S(ok), T(sec(iv+1)), S(netE), T(sec(61)), S(ok), T(sec(iv+1)), S(ok))
		add(sec(iv), false, "corpus", S(ok), pf, T(sec(61)), S(ok))
		add(sec(iv), false, "corpus", C(ok), C(netE), T(sec(30)), S(ok), T(sec(31)), S(ok), S(ok))
		add(sec(iv), false, "corpus", S(unavail), T(sec(61)), S(unavail), T(sec(61)), S(netE), T(sec(61)), S(ok))
	}
	add(sec(1), false, "corpus", C(tmoE), C(other), C(199), C(299), C(300), C(ok))
	add(sec(5), false, "corpus", C(netRetr), C(tmoRetr), C(ok))              // the flavours the client retries (3 attempts each)

	// ---- exhaustive outcome histories
	L := 5
	if thorough {
		L = 7
	}
	alpha := []int64{ok, notFnd, unavail, netE, tmoE}
	for mode := 0; mode < 3; mode++ {
		for _, iv := range []time.Duration{sec(5.3), sec(13)} {
			if mode != 0 && iv != sec(5.3) {
				continue
			}
			words(alpha, L, func(w []int64) {
				jobs = append(jobs, job{iv, timeoutFor(iv), mode == 0, expand(w, mode), "exhaustive.mode" + string(rune('0'+mode))})
			})
		}
	}
	// exhaustive with proxy failures and the retried flavours mixed in (shorter)
	L2 := 4
	if thorough {
		L2 = 5
	}
	words([]int64{ok, unavail, netE, -1}, L2, func(w []int64) {
		var ops []op
		for _, o := range w {
			ops = append(ops, due)
			if o == -1 {
				ops = append(ops, pf)
			} else {
				ops = append(ops, C(o))
			}
		}
		jobs = append(jobs, job{sec(7.7), timeoutFor(sec(7.7)), false, ops, "exhaustive.proxy"})
	})

	// ---- random histories to length 60
	intervals := []time.Duration{sec(1), sec(1.1), sec(2.3), sec(5), sec(5.3), sec(7.7), sec(13), sec(30.7), sec(59), sec(61), sec(120), sec(3600)}
	codes := []int64{200, 200, 200, 201, 204, 299, 199, 300, 301, 400, 404, 429, 500, 503, 599}
	nr := 400
	if thorough {
		nr = 6000
	}
	for i := 0; i < nr; i++ {
		iv := vlib.Pick(r, intervals)
		if r.Chance(2, 5) { // boundary-biased: intervals at and next to 60 s / 12, / 8, / 4, / 2, the minimum, other units
			iv = vlib.Pick(r, boundaryIntervals)
		}
		n := 5 + r.Intn(56)
		ideal := r.Chance(1, 3)
		mood := r.Intn(3) // 0 mostly failing, 1 mostly fine, 2 mixed
		var ops []op
		for len(ops) < n {
			var oc int64
			x := r.Intn(100)
			pOK := []int{25, 80, 50}[mood]
			switch {
			case x < pOK:
				oc = ok
			case x < pOK+(100-pOK)/3:
				oc = vlib.Pick(r, codes)
			case x < pOK+2*(100-pOK)/3:
				oc = netE
			default:
				oc = vlib.Pick(r, []int64{tmoE, tmoE, other})
			}
			if ideal {
				ops = append(ops, due, C(oc))
				continue
			}
			switch y := r.Intn(100); {
			case y < 35:
				ops = append(ops, C(oc))
			case y < 55:
				ops = append(ops, S(oc))
			case y < 62:
				ops = append(ops, pf)
			case y < 80:
				ops = append(ops, due)
			default:
				var d time.Duration
				switch z := r.Intn(4); z {
				case 0:
					d = time.Millisecond + time.Duration(r.U64()%uint64(3*time.Second))
				case 1:
					d = bto/3 + time.Duration(r.U64()%uint64(bto/2))
				case 2:
					d = bto + 200*time.Millisecond + time.Duration(r.U64()%uint64(bto))
				default:
					d = time.Duration(r.U64() % uint64(2*iv))
				}
				ops = append(ops, T(d))
			}
		}
		jobs = append(jobs, job{iv, timeoutFor(iv), ideal, ops, "random"})
	}
	res := runAll(jobs, workers)
	emit(c, res)

	// ---- histories whose failures are retried inside the client (each such check takes ~0.3 s of real time)
	var rjobs []job
	nrr := 150
	if thorough {
		nrr = 2000
	}
	for i := 0; i < nrr; i++ {
		iv := vlib.Pick(r, []time.Duration{sec(2.3), sec(5.3), sec(13)})
		n := 3 + r.Intn(6)
		var ops []op
		for j := 0; j < n; j++ {
			ops = append(ops, due, C(vlib.Pick(r, []int64{netRetr, netRetr, tmoRetr, ok, unavail})))
		}
		rjobs = append(rjobs, job{iv, timeoutFor(iv), true, ops, "retried"})
	}
	emit(c, runAll(rjobs, 128))

	// ---- fleets: many endpoints on one checker (numbers of due endpoints around the concurrency constants, mixed
	// priorities and boundary intervals); every endpoint's projection is judged like a single-endpoint history
	fleets(c, r.Fork(), thorough)

	slowWG.Wait()
	emit(c, slowRes)
	c.Emit(map[string]any{"kind": "loop", "impl": <-loopRes})
	c.Count("loop.production-wiring")
	// more endpoints due than check slots, slow slot holders, the round's deadline passes; then everybody answers
	for _, cr := range []struct {
		n, slow int
		forced  bool
	}{{8, 5, false}, {12, 5, false}, {6, 6, false}, {14, 10, true}, {25, 12, true}, {4, 2, false}} {
		c.Emit(map[string]any{"kind": "crowd", "n": cr.n, "slow": cr.slow, "forced": cr.forced, "impl": crowdCase(cr.n, cr.slow, cr.forced)})
		c.Count("crowd")
	}

	c.Close(map[string]any{"exhaustive": true, "reruns_for_timing": atomic.LoadInt64(&reruns), "dropped_for_timing": atomic.LoadInt64(&dropped),
		"exhaustive_note": "all histories of " + map[bool]string{false: "5", true: "7"}[thorough] +
			" check outcomes over {200, 404, 503, connection error, timeout}: with the ideal scheduler (intervals 5.3 s and 13 s), as forced back-to-back rounds, and as scheduler firings 31 s apart; all length-" + map[bool]string{false: "4", true: "5"}[thorough] +
			" mixes of {200, 503, connection error, proxy failure}; slow (>10 s) answers only in a handful of hand-picked histories because each costs 10 s of real time"})
}
