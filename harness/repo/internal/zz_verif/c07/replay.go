//go:build verif

package main

import (
	"encoding/json"
	"fmt"
	"os"
	"time"

	"github.com/thushan/olla/internal/zz_verif/vlib"
)

// replay re-runs exactly the history stored in a replay file written by bin/check
// (field "failing_case"), or a bare case object.
func replay(c *vlib.Cases, path string) {
	raw, err := os.ReadFile(path)
	if err != nil {
		fmt.Fprintln(os.Stderr, "c07: cannot read replay:", err)
		os.Exit(3)
	}
	var doc map[string]json.RawMessage
	if err := json.Unmarshal(raw, &doc); err != nil {
		fmt.Fprintln(os.Stderr, "c07: bad replay file:", err)
		os.Exit(3)
	}
	if fc, ok := doc["failing_case"]; ok {
		raw = fc
	}
	var cs struct {
		Interval int64 `json:"interval"`
		Ideal    bool  `json:"ideal"`
		Ops      []op  `json:"ops"`
	}
	if err := json.Unmarshal(raw, &cs); err != nil {
		fmt.Fprintln(os.Stderr, "c07: bad case in replay file:", err)
		os.Exit(3)
	}
	ops := make([]op, len(cs.Ops))
	for i, o := range cs.Ops {
		ops[i] = o
		if o[0] == kTickDue {
			ops[i][1] = 0
		}
	}
	iv := time.Duration(cs.Interval)
	o, obs, ok := run(iv, timeoutFor(iv), ops)
	if ok {
		c.Emit(map[string]any{"kind": "hist", "interval": cs.Interval, "ideal": cs.Ideal, "ops": o, "obs": obs})
	}
	fmt.Fprintf(os.Stderr, "replay interval=%v ops=%v\nobserved (ran reached status delay fired failures mult cbFailures cbOpen cbAttempt per step): %v\n", iv, o, obs)
}
