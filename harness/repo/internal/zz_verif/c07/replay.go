//go:build verif

package main

import (
	"encoding/json"
	"fmt"
	"os"
	"time"

	"github.com/thushan/olla/internal/zz_verif/vlib"
)

// replay re-runs exactly the history stored in a replay file written by bin/check
// (field "failing_case"), or a bare case object.
func replay(c *vlib.Cases, path string) {
	raw, err := os.ReadFile(path)
	if err != nil {
		fmt.Fprintln(os.Stderr, "c07: cannot read replay:", err)
		os.Exit(3)
	}
	var doc map[string]json.RawMessage
	if err := json.Unmarshal(raw, &doc); err != nil {
		fmt.Fprintln(os.Stderr, "c07: bad replay file:", err)
		os.Exit(3)
	}
	if fc, ok := doc["failing_case"]; ok {
		raw = fc
	}
	var cs struct {
		Interval int64 `json:"interval"`
		Ideal    bool  `json:"ideal"`
		Ops      []op  `json:"ops"`
		Fleet    *struct {
			Idx  int       `json:"idx"`
			Plan fleetPlan `json:"plan"`
		} `json:"fleet"`
	}
	if err := json.Unmarshal(raw, &cs); err != nil {
		fmt.Fprintln(os.Stderr, "c07: bad case in replay file:", err)
		os.Exit(3)
	}
	if cs.Fleet != nil && len(cs.Fleet.Plan.Intervals) > 0 {
		// one endpoint of a fleet failed: re-run the whole fleet on one checker, emit every endpoint's projection
		eps, ok := runFleet(cs.Fleet.Plan)
		if ok {
			emitFleet(c, cs.Fleet.Plan, eps, "fleet")
			if i := cs.Fleet.Idx; i >= 0 && i < len(eps) {
				fmt.Fprintf(os.Stderr, "replay fleet of %d endpoints, endpoint %d (priority %d, interval %v) ops=%v\nobserved: %v\n", len(eps), i, cs.Fleet.Plan.Prios[i], time.Duration(cs.Fleet.Plan.Intervals[i]), eps[i].ops, eps[i].obs)
			}
		} else {
			fmt.Fprintln(os.Stderr, "replay: the fleet history could not be run within its real-time budget (loaded machine); not judged")
		}
		return
	}
	ops := make([]op, len(cs.Ops))
	for i, o := range cs.Ops {
		ops[i] = o
		if o[0] == kTickDue {
			ops[i][1] = 0
		}
	}
	iv := time.Duration(cs.Interval)
	o, obs, ok := run(iv, timeoutFor(iv), ops)
	if ok {
		c.Emit(map[string]any{"kind": "hist", "interval": cs.Interval, "ideal": cs.Ideal, "ops": o, "obs": obs})
	}
	fmt.Fprintf(os.Stderr, "replay interval=%v ops=%v\nobserved (ran reached status delay fired failures mult cbFailures cbOpen cbAttempt per step): %v\n", iv, o, obs)
}
