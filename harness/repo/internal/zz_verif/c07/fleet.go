//go:build verif

// fleet: MANY endpoints on ONE real checker / repository / breaker / retry handler (round 8).
//
// The single-endpoint histories of main.go never have more than one endpoint due in a scheduler round, so
// nothing there ranges over the NUMBER of due endpoints, their priorities, or a mix of intervals on one
// checker.  A fleet history does: n endpoints (n drawn around the checker's concurrency constants - 5 slots
// for a scheduled round, 10 for a forced one - and well above), priorities distinct / tied / zero, intervals
// drawn around the back-off boundaries (cap 60 s / multiplier 12 / ticker 30 s), and a sequence of global
// steps: time passes (every stored stamp of every endpoint moves into the past), one firing of the scheduler
// (performHealthChecks, each endpoint's backend scripted separately), a forced round (RunHealthCheck), a
// proxy-detected failure of one endpoint.
//
// Judgement: endpoints are independent (checks/C07.json, "trusted"), so the PROJECTION of the fleet history
// on each endpoint is a single-endpoint history in exactly the format of kind "hist" and is judged by exactly
// the same model comparison and clause predicates (due-check-not-run-by-the-scheduler, recovery callback
// count, healthy-iff, back-off schedule ...).  Every projection is emitted as its own case and carries the
// whole fleet plan, so that a replay re-runs the fleet and not the lone endpoint.
package main

import (
	"context"
	"errors"
	"fmt"
	"net"
	"net/http"
	"net/http/httptest"
	"os"
	"sync"
	"sync/atomic"
	"syscall"
	"time"

	"github.com/thushan/olla/internal/adapter/discovery"
	"github.com/thushan/olla/internal/adapter/health"
	"github.com/thushan/olla/internal/adapter/proxy/core"
	"github.com/thushan/olla/internal/config"
	"github.com/thushan/olla/internal/core/domain"
	"github.com/thushan/olla/internal/core/ports"
	"github.com/thushan/olla/internal/zz_verif/vlib"
)

type fleetStep struct {
	K int     `json:"k"`           // kCheck, kSched, kProxyFail, kTick
	A int64   `json:"a,omitempty"` // kTick: ns; kProxyFail: endpoint index
	O []int64 `json:"o,omitempty"` // kCheck / kSched: outcome per endpoint
}

type fleetPlan struct {
	Intervals []int64     `json:"intervals"` // ns, per endpoint
	Prios     []int       `json:"prios"`
	Steps     []fleetStep `json:"steps"`
}

type fleetClient struct {
	mu    sync.Mutex
	next  map[string]int64
	calls map[string]int64
}

func (c *fleetClient) Do(req *http.Request) (*http.Response, error) {
	c.mu.Lock()
	c.calls[req.URL.Host]++
	o := c.next[req.URL.Host]
	c.mu.Unlock()
	sc := &scriptClient{next: o}
	return sc.Do(req)
}

func (c *fleetClient) callsOf(host string) int64 {
	c.mu.Lock()
	defer c.mu.Unlock()
	return c.calls[host]
}

func fleetHost(i int) string { return fmt.Sprintf("10.7.%d.%d:8000", i/200, i%200+1) }
func fleetName(i int) string { return fmt.Sprintf("f%03d", i) }

type fleetEP struct {
	ops    []op
	obs    []int64
	stamps []int64
}

// fleetBudget: real time one whole fleet history may take. Simulated time only moves in kTick steps; the driver does
// not compare decisions that fall within 50 ms of a time boundary, so the real time that leaks in must stay below that.
const fleetBudget = 40 * time.Millisecond

func runFleetOnce(p fleetPlan) (eps []fleetEP, took time.Duration, err error) {
	defer func() {
		if r := recover(); r != nil {
			err = fmt.Errorf("panic: %v", r)
		}
	}()
	n := len(p.Intervals)
	fc := &fleetClient{next: map[string]int64{}, calls: map[string]int64{}}
	repo := discovery.NewStaticEndpointRepositoryWithFactory(factory)
	var cfgs []config.EndpointConfig
	for i := 0; i < n; i++ {
		iv := time.Duration(p.Intervals[i])
		pr := p.Prios[i]
		cfgs = append(cfgs, config.EndpointConfig{Name: fleetName(i), URL: "http://" + fleetHost(i), HealthCheckURL: "/health", ModelURL: "/models",
			CheckInterval: iv, CheckTimeout: timeoutFor(iv), Priority: &pr})
	}
	if err := repo.LoadFromConfig(context.Background(), cfgs); err != nil {
		return nil, 0, err
	}
	chk := health.NewHTTPHealthChecker(repo, vlib.QuietLogger(), fc)
	var cbStarted, cbDone, expected int64
	var mu sync.Mutex
	type stamp struct {
		name string
		at   int64
	}
	var cbStamps []stamp
	chk.SetRecoveryCallback(health.RecoveryCallbackFunc(func(cbCtx context.Context, ep *domain.Endpoint) error {
		atomic.AddInt64(&cbStarted, 1)
		defer atomic.AddInt64(&cbDone, 1)
		select {
		case <-cbCtx.Done():
			return cbCtx.Err()
		case <-time.After(2 * time.Millisecond):
		}
		mu.Lock()
		cbStamps = append(cbStamps, stamp{ep.Name, ep.LastChecked.UnixNano()})
		mu.Unlock()
		return nil
	}))
	health.VerifMarkRunning(chk)
	cb := health.VerifBreakerOf(chk)
	retry := core.NewRetryHandler(discoAdapter{repo}, vlib.QuietLogger())
	ctx := context.Background()
	snapshot := func() []*domain.Endpoint {
		all, _ := repo.GetAll(ctx)
		out := make([]*domain.Endpoint, n)
		for _, e := range all {
			var i int
			if _, err := fmt.Sscanf(e.Name, "f%d", &i); err == nil && i >= 0 && i < n {
				out[i] = e
			}
		}
		return out
	}
	first := snapshot()
	hc := make([]string, n)
	for i, e := range first {
		if e == nil {
			return nil, 0, errors.New("endpoint missing after LoadFromConfig")
		}
		hc[i] = e.GetHealthCheckURLString()
	}
	eps = make([]fleetEP, n)
	t0 := time.Now()
	for _, st := range p.Steps {
		before := snapshot()
		callsBefore := make([]int64, n)
		for i := range callsBefore {
			callsBefore[i] = fc.callsOf(fleetHost(i))
		}
		affected := func(i int) bool { return true }
		switch st.K {
		case kCheck, kSched:
			fc.mu.Lock()
			for i := 0; i < n; i++ {
				fc.next[fleetHost(i)] = st.O[i]
			}
			fc.mu.Unlock()
			if st.K == kCheck {
				_ = chk.RunHealthCheck(ctx, false)
			} else {
				// exactly what healthCheckLoop does on a ticker firing
				roundCtx, cancelRound := context.WithTimeout(context.Background(), health.DefaultHealthCheckInterval/2)
				health.VerifTickerRound(chk, roundCtx)
				cancelRound()
			}
		case kProxyFail:
			k := int(st.A)
			affected = func(i int) bool { return i == k }
			req := httptest.NewRequest(http.MethodGet, "/olla/proxy/v1/models", nil)
			_ = retry.ExecuteWithRetry(ctx, httptest.NewRecorder(), req, []*domain.Endpoint{before[k]}, firstSelector{}, &ports.RequestStats{StartTime: time.Now()},
				func(context.Context, http.ResponseWriter, *http.Request, *domain.Endpoint, *ports.RequestStats) error {
					return &net.OpError{Op: "dial", Net: "tcp", Err: os.NewSyscallError("connect", syscall.ECONNREFUSED)}
				})
		case kTick:
			d := time.Duration(st.A)
			for i, e := range before {
				health.VerifRewind(cb, hc[i], d)
				cp := *e
				if !cp.LastChecked.IsZero() {
					cp.LastChecked = cp.LastChecked.Add(-d)
				}
				cp.NextCheckTime = cp.NextCheckTime.Add(-d)
				_ = repo.UpdateEndpoint(ctx, &cp)
			}
		}
		after := snapshot()
		for i := 0; i < n; i++ {
			if !affected(i) {
				continue
			}
			e := &eps[i]
			b, a := before[i], after[i]
			var o op
			switch st.K {
			case kCheck, kSched:
				o = op{int64(st.K), st.O[i]}
			case kProxyFail:
				o = op{kProxyFail, 0}
			default:
				o = op{kTick, st.A}
			}
			e.ops = append(e.ops, o)
			ran, stampV := int64(0), int64(0)
			if st.K != kTick && !a.LastChecked.Equal(b.LastChecked) {
				ran = 1
				stampV = a.LastChecked.UnixNano()
				if a.Status == domain.StatusHealthy && b.Status != domain.StatusHealthy && b.Status != domain.StatusUnknown {
					expected++
				}
			}
			e.stamps = append(e.stamps, stampV)
			reached := int64(0)
			if fc.callsOf(fleetHost(i)) > callsBefore[i] {
				reached = 1
			}
			delay := int64(0)
			if !a.LastChecked.IsZero() {
				delay = int64(a.NextCheckTime.Sub(a.LastChecked))
			}
			f, _, la, open, _ := health.VerifPeek(cb, hc[i])
			att := int64(0)
			if la != 0 {
				att = 1
			}
			e.obs = append(e.obs, ran, reached, statusIdx[a.Status], delay, 0, int64(a.ConsecutiveFailures), int64(a.BackoffMultiplier), f, int64(open), att)
		}
	}
	took = time.Since(t0)
	// recovery callbacks run in their own goroutines: wait (event-driven, up to 3 s) until every callback that was
	// entered has returned and as many have come as the repository showed recoveries; then a short grace period
	deadline := time.Now().Add(3 * time.Second)
	for time.Now().Before(deadline) && !(atomic.LoadInt64(&cbDone) >= atomic.LoadInt64(&cbStarted) && atomic.LoadInt64(&cbDone) >= expected) {
		time.Sleep(200 * time.Microsecond)
	}
	time.Sleep(3 * time.Millisecond)
	for time.Now().Before(deadline) && atomic.LoadInt64(&cbDone) < atomic.LoadInt64(&cbStarted) {
		time.Sleep(200 * time.Microsecond)
	}
	mu.Lock()
	defer mu.Unlock()
	for _, s := range cbStamps {
		var i int
		if _, err := fmt.Sscanf(s.name, "f%d", &i); err != nil || i < 0 || i >= n || len(eps[i].ops) == 0 {
			continue
		}
		e := &eps[i]
		attributed := false
		for k := range e.stamps {
			if e.stamps[k] == s.at && s.at != 0 {
				e.obs[obsW*k+4]++
				attributed = true
				break
			}
		}
		if !attributed {
			e.obs[obsW*(len(e.ops)-1)+4] += 1000 // a callback nobody asked for
		}
	}
	return eps, took, nil
}

// runFleet re-executes a fleet history that took too much real time (loaded machine); after five attempts it is
// dropped (not judged).
func runFleet(p fleetPlan) ([]fleetEP, bool) {
	for i := 0; ; i++ {
		eps, took, err := runFleetOnce(p)
		if err != nil {
			return nil, false
		}
		if took < fleetBudget {
			return eps, true
		}
		if i >= 4 {
			atomic.AddInt64(&dropped, 1)
			return nil, false
		}
		atomic.AddInt64(&reruns, 1)
	}
}

func emitFleet(c *vlib.Cases, p fleetPlan, eps []fleetEP, bucket string) {
	for i, e := range eps {
		if len(e.ops) == 0 {
			continue
		}
		c.Emit(map[string]any{"kind": "hist", "interval": p.Intervals[i], "ideal": false, "ops": e.ops, "obs": e.obs,
			"fleet": map[string]any{"idx": i, "n": len(eps), "prio": p.Prios[i], "plan": p}})
		c.Count(bucket)
	}
}

// ---------------------------------------------------------------- generator (boundary-biased)

// numbers of endpoints around the checker's concurrency constants (5 slots per scheduled round, 10 per forced
// round) and their multiples, and well above the typical
var fleetSizes = []int{1, 2, 4, 5, 6, 7, 8, 9, 10, 11, 12, 14, 15, 16, 19, 20, 21, 24, 25, 26}
var fleetSizesBig = []int{29, 30, 31, 49, 50, 51, 64, 99, 100, 101}

// check_interval values around the schedule's boundaries: 12 x 5 s = 8 x 7.5 s = 4 x 15 s = 2 x 30 s = 60 s (the cap),
// the validation minimum 1 s, the ticker period 30 s, and the same written in other units
var boundaryIntervals = []time.Duration{
	time.Second, time.Second + time.Nanosecond, 1500 * time.Millisecond, 2300 * time.Millisecond,
	sec(4.9999), 5 * time.Second, sec(5.0001), sec(7.4), 7500 * time.Millisecond, sec(7.6),
	sec(14.999), 15 * time.Second, sec(15.001), sec(29.999), 30 * time.Second, sec(30.001), time.Minute / 2,
	sec(59.999), 60 * time.Second, time.Minute, sec(60.001), 61 * time.Second, 90 * time.Second, 2 * time.Minute, time.Hour,
}

func genFleet(r *vlib.Rng, big bool) fleetPlan {
	n := vlib.Pick(r, fleetSizes)
	if big && r.Chance(1, 3) {
		n = vlib.Pick(r, fleetSizesBig)
	}
	var p fleetPlan
	prioMode := r.Intn(4) // 0 distinct descending, 1 distinct shuffled, 2 all equal, 3 few values with ties (incl. 0)
	ivMode := r.Intn(3)   // 0 all short (everybody due at every firing while healthy), 1 one short value, 2 anything
	one := vlib.Pick(r, []time.Duration{time.Second, 2 * time.Second, 5 * time.Second, sec(7.5), 15 * time.Second})
	for i := 0; i < n; i++ {
		var pr int
		switch prioMode {
		case 0:
			pr = 100 + 10*(n-i)
		case 1:
			pr = 1 + r.Intn(100000)
		case 2:
			pr = 100
		default:
			pr = vlib.Pick(r, []int{0, 0, 1, 50, 100, 100, 101, 1000})
		}
		p.Prios = append(p.Prios, pr)
		var iv time.Duration
		switch ivMode {
		case 0:
			iv = vlib.Pick(r, boundaryIntervals[:14])
		case 1:
			iv = one
		default:
			iv = vlib.Pick(r, boundaryIntervals)
		}
		p.Intervals = append(p.Intervals, int64(iv))
	}
	_, bto := health.VerifBreakerConfig(health.NewCircuitBreaker())
	// each endpoint's backend has a mood: fine / flapping / down, and may change it once
	mood := make([]int, n)
	for i := range mood {
		mood[i] = vlib.Pick(r, []int{0, 0, 0, 1, 2})
	}
	outcomes := func() []int64 {
		out := make([]int64, n)
		for i := range out {
			pOK := []int{92, 50, 8}[mood[i]]
			if r.Intn(100) < pOK {
				out[i] = vlib.Pick(r, []int64{200, 200, 200, 204, 299})
			} else {
				out[i] = vlib.Pick(r, []int64{503, 404, 500, 199, 300, 1, 1, 2, 3})
			}
			if r.Chance(1, 12) {
				mood[i] = r.Intn(3)
			}
		}
		return out
	}
	if r.Chance(1, 2) { // start-up round, as the application does
		p.Steps = append(p.Steps, fleetStep{K: kCheck, O: outcomes()})
	}
	rounds := 3 + r.Intn(6)
	for k := 0; k < rounds; k++ {
		if r.Chance(1, 5) {
			p.Steps = append(p.Steps, fleetStep{K: kProxyFail, A: int64(r.Intn(n))})
		}
		var d time.Duration
		switch x := r.Intn(10); {
		case x < 6:
			d = health.DefaultHealthCheckInterval + time.Second // the ticker period
		case x == 6:
			d = health.DefaultHealthCheckInterval/6 + 200*time.Millisecond
		case x == 7:
			d = 61 * time.Second
		case x == 8:
			d = bto + time.Second
		default:
			d = time.Duration(1+r.Intn(120)) * time.Second + 300*time.Millisecond
		}
		p.Steps = append(p.Steps, fleetStep{K: kTick, A: int64(d)})
		if r.Chance(1, 10) {
			p.Steps = append(p.Steps, fleetStep{K: kCheck, O: outcomes()})
		} else {
			p.Steps = append(p.Steps, fleetStep{K: kSched, O: outcomes()})
		}
	}
	return p
}

// fleetCorpus: fixed fleets - all endpoints short-interval, distinct priorities, one low-priority endpoint is down for
// one round and answers again afterwards; sizes around the scheduled round's 5 slots and the forced round's 10.
func fleetCorpus() []fleetPlan {
	var ps []fleetPlan
	for _, n := range []int{4, 5, 6, 7, 9, 10, 11, 14, 15, 16, 25, 26} {
		var p fleetPlan
		for i := 0; i < n; i++ {
			p.Intervals = append(p.Intervals, int64(5*time.Second))
			p.Prios = append(p.Prios, 100-3*i)
		}
		all := func(special int64) []int64 {
			out := make([]int64, n)
			for i := range out {
				out[i] = 200
			}
			out[n-1] = special
			return out
		}
		t := fleetStep{K: kTick, A: int64(31 * time.Second)}
		p.Steps = []fleetStep{{K: kCheck, O: all(200)}, t, {K: kCheck, O: all(503)}, t, {K: kSched, O: all(200)}, t, {K: kSched, O: all(200)}, t, {K: kSched, O: all(200)}}
		ps = append(ps, p)
	}
	return ps
}

func fleets(c *vlib.Cases, r *vlib.Rng, thorough bool) {
	var plans []fleetPlan
	plans = append(plans, fleetCorpus()...)
	nf := 60
	if thorough {
		nf = 500
	}
	for i := 0; i < nf; i++ {
		plans = append(plans, genFleet(r, thorough))
	}
	// few at a time: a fleet history must fit into fleetBudget of real time
	type fr struct {
		eps []fleetEP
		ok  bool
	}
	res := make([]fr, len(plans))
	var wg sync.WaitGroup
	next := int64(-1)
	for w := 0; w < 3; w++ {
		wg.Add(1)
		go func() {
			defer wg.Done()
			for {
				i := int(atomic.AddInt64(&next, 1))
				if i >= len(plans) {
					return
				}
				eps, ok := runFleet(plans[i])
				res[i] = fr{eps, ok}
			}
		}()
	}
	wg.Wait()
	for i, x := range res {
		if !x.ok {
			c.Count("dropped.timing.fleet")
			continue
		}
		emitFleet(c, plans[i], x.eps, "fleet")
	}
}
