//go:build verif

// c03: only healthy, eligible endpoints receive traffic.
//
//	table    the real StaticEndpointRepository (LoadFromConfig, the way the unit tests build it) with every
//	         status x priority-pattern assignment for n <= 4 endpoints: GetHealthy / GetRoutable, and the three
//	         real selectors from balancer.NewFactory on the healthy snapshot and on the full list
//	history  op histories on the real repository: UpdateEndpoint, snapshot (GetHealthy / GetAll / GetRoutable),
//	         scribbling on a snapshot's records after it was taken, Select on a (possibly stale) snapshot
//	stack    the production wiring with scripted backends: sequential histories of status writes, requests
//	         hitting failing backends (proxy-detected failure -> offline), recoveries, interleaved with requests;
//	         every backend contact is checked against the repository's status when the request was sent
//	race     concurrent status writers + request senders on one stack; interval check per contact
package main

import (
	"context"
	"encoding/json"
	"fmt"
	"os"
	"sort"
	"strings"
	"sync"
	"sync/atomic"
	"time"

	"github.com/thushan/olla/internal/adapter/balancer"
	"github.com/thushan/olla/internal/adapter/discovery"
	"github.com/thushan/olla/internal/adapter/registry/profile"
	"github.com/thushan/olla/internal/adapter/stats"
	"github.com/thushan/olla/internal/config"
	"github.com/thushan/olla/internal/core/domain"
	"github.com/thushan/olla/internal/zz_verif/scen"
	"github.com/thushan/olla/internal/zz_verif/stack"
	"github.com/thushan/olla/internal/zz_verif/vlib"
)

var statuses = []string{"healthy", "busy", "offline", "warming", "unhealthy", "unknown"}
var balancers = []string{"priority", "round-robin", "least-connections"}

type ep struct {
	ID     int    `json:"id"`
	Prio   int    `json:"prio"`
	Status string `json:"status"`
}

func urlOf(id int) string { return fmt.Sprintf("http://10.9.0.%d:11434", id+1) }

var profileFactory = func() *profile.Factory {
	f, err := profile.NewFactoryWithDefaults() // what NewStaticEndpointRepository() does, once instead of per repository
	if err != nil {
		f, _ = profile.NewFactory("")
	}
	return f
}()

func newRepo(eps []ep) *discovery.StaticEndpointRepository {
	repo := discovery.NewStaticEndpointRepositoryWithFactory(profileFactory)
	var cfgs []config.EndpointConfig
	for _, e := range eps {
		p := e.Prio
		cfgs = append(cfgs, config.EndpointConfig{URL: urlOf(e.ID), Name: fmt.Sprintf("e%d", e.ID), Type: "openai", Priority: &p,
			HealthCheckURL: "/health", ModelURL: "/v1/models", CheckInterval: 5 * time.Second, CheckTimeout: 2 * time.Second})
	}
	if err := repo.LoadFromConfig(context.Background(), cfgs); err != nil {
		panic(err)
	}
	return repo
}

func idOfURL(u string) int {
	var a int
	if _, err := fmt.Sscanf(u, "http://10.9.0.%d:11434", &a); err != nil {
		return -2
	}
	return a - 1
}

// update writes a status the way the health checker does: copy of the stored record, UpdateEndpoint.
func update(repo *discovery.StaticEndpointRepository, id int, st string) {
	all, _ := repo.GetAll(context.Background())
	for _, e := range all {
		if e.URLString == urlOf(id) {
			cp := *e
			cp.Status = domain.EndpointStatus(st)
			repo.UpdateEndpoint(context.Background(), &cp)
			return
		}
	}
}

func sorted(l []*domain.Endpoint) []*domain.Endpoint {
	out := append([]*domain.Endpoint{}, l...)
	sort.Slice(out, func(i, j int) bool { return out[i].URLString < out[j].URLString })
	return out
}

func ids(l []*domain.Endpoint) []int {
	out := []int{}
	for _, e := range sorted(l) {
		out = append(out, idOfURL(e.URLString))
	}
	return out
}

func recs(l []*domain.Endpoint) []ep {
	out := []ep{}
	for _, e := range sorted(l) {
		out = append(out, ep{idOfURL(e.URLString), e.Priority, string(e.Status)})
	}
	return out
}

func newSel(name string) domain.EndpointSelector {
	s, err := balancer.NewFactory(stats.NewCollector(vlib.QuietLogger())).Create(name)
	if err != nil {
		panic(err)
	}
	return s
}

// pick returns the id the selector chose from l (-1: error, -2: something that is not in l).
func pick(sel domain.EndpointSelector, l []*domain.Endpoint) int {
	var e *domain.Endpoint
	var err error
	func() {
		defer func() {
			if recover() != nil {
				err = fmt.Errorf("panic")
			}
		}()
		e, err = sel.Select(context.Background(), l)
	}()
	if err != nil || e == nil {
		return -1
	}
	for _, x := range l {
		if x == e {
			return idOfURL(e.URLString)
		}
	}
	return -2
}

func pickSet(sel domain.EndpointSelector, l []*domain.Endpoint, draws int) []int {
	seen := map[int]bool{}
	for i := 0; i < draws; i++ {
		seen[pick(sel, l)] = true
	}
	out := []int{}
	for k := range seen {
		out = append(out, k)
	}
	sort.Ints(out)
	return out
}

func caseTable(c *vlib.Cases, eps []ep) {
	repo := newRepo(eps)
	for _, e := range eps {
		update(repo, e.ID, e.Status)
	}
	ctx := context.Background()
	h, _ := repo.GetHealthy(ctx)
	ro, _ := repo.GetRoutable(ctx)
	all, _ := repo.GetAll(ctx)
	hs, as := sorted(h), sorted(all)
	impl := map[string]any{"healthy": recs(h), "routable": ids(ro), "all": recs(all),
		"on_healthy": map[string]any{"priority": pickSet(newSel("priority"), hs, 24), "round-robin": pick(newSel("round-robin"), hs), "least-connections": pick(newSel("least-connections"), hs)},
		"on_all":     map[string]any{"priority": pickSet(newSel("priority"), as, 24), "round-robin": pick(newSel("round-robin"), as), "least-connections": pick(newSel("least-connections"), as)}}
	c.Emit(map[string]any{"kind": "table", "eps": eps, "impl": impl})
}

type hop struct {
	Op  string `json:"op"` // update | snap | mutate | select
	E   int    `json:"e,omitempty"`
	S   string `json:"s,omitempty"`
	K   int    `json:"k,omitempty"`   // snapshot slot
	Src string `json:"src,omitempty"` // healthy | all | routable
	I   int    `json:"i,omitempty"`   // index into the snapshot (sorted by id)
	Bal string `json:"bal,omitempty"`
}

type hstep struct {
	Repo []ep  `json:"repo"`           // the repository after the op (GetAll)
	Snap []ep  `json:"snap,omitempty"` // records of the snapshot touched by the op, as they read now
	Sel  []int `json:"sel,omitempty"`  // select: ids picked (one, or the set over 16 draws for priority)
}

func caseHistory(c *vlib.Cases, eps []ep, ops []hop) {
	repo := newRepo(eps)
	ctx := context.Background()
	snaps := map[int][]*domain.Endpoint{}
	sels := map[string]domain.EndpointSelector{}
	for _, b := range balancers {
		sels[b] = newSel(b)
	}
	var steps []hstep
	for _, o := range ops {
		var st hstep
		switch o.Op {
		case "update":
			update(repo, o.E, o.S)
		case "snap":
			var l []*domain.Endpoint
			switch o.Src {
			case "all":
				l, _ = repo.GetAll(ctx)
			case "routable":
				l, _ = repo.GetRoutable(ctx)
			default:
				l, _ = repo.GetHealthy(ctx)
			}
			snaps[o.K] = sorted(l)
			st.Snap = recs(snaps[o.K])
		case "mutate":
			l := snaps[o.K]
			if o.I < len(l) {
				l[o.I].Status = domain.EndpointStatus(o.S)
			}
			st.Snap = recs(l)
		case "select":
			l := snaps[o.K]
			if o.Bal == "priority" {
				st.Sel = pickSet(sels[o.Bal], l, 16)
			} else {
				st.Sel = []int{pick(sels[o.Bal], l)}
			}
			st.Snap = recs(l)
		}
		all, _ := repo.GetAll(ctx)
		st.Repo = recs(all)
		steps = append(steps, st)
	}
	c.Emit(map[string]any{"kind": "history", "eps": eps, "ops": ops, "impl": map[string]any{"steps": steps}})
}

func genHistory(r *vlib.Rng, n int) []hop {
	var ops []hop
	taken := 0
	snapLen := map[int]int{}
	for len(ops) < 10+r.Intn(14) {
		switch x := r.Intn(10); {
		case x < 3:
			ops = append(ops, hop{Op: "update", E: r.Intn(n), S: vlib.Pick(r, statuses)})
		case x < 5 || taken == 0:
			k := taken % 3
			taken++
			snapLen[k] = n
			ops = append(ops, hop{Op: "snap", K: k, Src: vlib.Pick(r, []string{"healthy", "healthy", "all", "routable"})})
		case x < 7:
			ops = append(ops, hop{Op: "mutate", K: r.Intn(min(taken, 3)), I: r.Intn(n), S: vlib.Pick(r, statuses)})
		default:
			ops = append(ops, hop{Op: "select", K: r.Intn(min(taken, 3)), Bal: vlib.Pick(r, balancers)})
		}
	}
	return ops
}

// ---------------------------------------------------------------- stack

type sop struct {
	Op   string `json:"op"` // set | req | break | mend | overlap (a request is held by the endpoint it was dispatched to; a health-check round passes every endpoint; then the held attempt is reset)
	E    string `json:"e,omitempty"`
	S    string `json:"s,omitempty"`
	Kind string `json:"kind,omitempty"` // break: reset0 | close0
}

type sstep struct {
	Before    map[string]string `json:"before"`              // repository statuses when the op started (for req: when the request was sent)
	After     map[string]string `json:"after"`               // … when it was over (quiesced)
	Contacted []string          `json:"contacted,omitempty"` // req: backends that received it, in order
	Status    int               `json:"status,omitempty"`
	Held      string            `json:"held,omitempty"` // overlap: the endpoint that held the request while the health-check round ran
	Mid       map[string]string `json:"mid,omitempty"`  // overlap: repository statuses after the health-check round, the attempt still held
}

type stackCase struct {
	Engine   string   `json:"engine"`
	Balancer string   `json:"balancer"`
	Names    []string `json:"names"`
	Prios    []int    `json:"prios"`
	Ops      []sop    `json:"ops"`
	// Strategy: "" = default routing; "discovery-all" / "optimistic-all" = model_registry.routing_strategy of that type
	// with fallback_behavior all (and discovery_refresh_on_miss), requests name a model nobody lists: the candidate
	// set is "every healthy endpoint", computed per request
	Strategy string `json:"strategy,omitempty"`
}

func quiesceStatuses(s *stack.Stack) map[string]string {
	stack.Quiesce(func() string { return fmt.Sprint(s.Statuses(), s.Stats.GetConnectionStats()) })
	return s.Statuses()
}

func runStack(sc *stackCase) map[string]any {
	backends := make([]*stack.Backend, len(sc.Names))
	eps := make([]stack.EP, len(sc.Names))
	byName := map[string]*stack.Backend{}
	for i, n := range sc.Names {
		backends[i] = stack.NewBackend(n)
		byName[n] = backends[i]
		eps[i] = stack.EP{Name: n, Type: "openai", Priority: sc.Prios[i], Backend: backends[i]}
	}
	defer func() {
		for _, b := range backends {
			b.Close()
		}
	}()
	s, err := stack.Start(stack.Opts{Vary: stack.VaryForJSON("c03.stack", sc), Engine: sc.Engine, Balancer: sc.Balancer, Profile: "auto", EPs: eps, Mutate: func(cfg *config.Config) {
		switch sc.Strategy {
		case "discovery-all":
			cfg.ModelRegistry.RoutingStrategy.Type = "discovery"
			cfg.ModelRegistry.RoutingStrategy.Options.DiscoveryRefreshOnMiss = true
			cfg.ModelRegistry.RoutingStrategy.Options.FallbackBehavior = "all"
		case "optimistic-all":
			cfg.ModelRegistry.RoutingStrategy.Type = "optimistic"
			cfg.ModelRegistry.RoutingStrategy.Options.FallbackBehavior = "all"
		}
	}})
	if err != nil {
		return map[string]any{"start_err": err.Error()}
	}
	defer s.Stop()
	for _, n := range sc.Names {
		s.SetStatus(n, domain.StatusHealthy)
	}
	var steps []sstep
	reqNo := 0
	brokenNow := map[string]string{}
	for _, o := range sc.Ops {
		st := sstep{Before: s.Statuses()}
		switch o.Op {
		case "set":
			s.SetStatus(o.E, domain.EndpointStatus(o.S))
		case "break":
			byName[o.E].SetBehaviour(stack.Behaviour{Kind: o.Kind})
			brokenNow[o.E] = o.Kind
		case "mend":
			byName[o.E].SetBehaviour(scen.OkBeh(o.E, 200, 20, false, "application/json"))
			delete(brokenNow, o.E)
		case "req":
			reqNo++
			for _, b := range backends {
				b.Taken()
			}
			body := fmt.Sprintf(`{"messages":[{"role":"user","content":"r%d"}]}`, reqNo)
			if sc.Strategy != "" {
				body = fmt.Sprintf(`{"model":"zz-nobody-lists-%d","messages":[{"role":"user","content":"r%d"}]}`, reqNo%2, reqNo)
			}
			raw := stack.Request("POST", "/olla/proxy/v1/chat/completions", s.Addr, [][2]string{{"Content-Type", "application/json"}}, []byte(body), false)
			r := stack.Do(s.Addr, raw, 5*time.Second)
			st.Status = r.Status
			var all []*stack.Seen
			for _, b := range backends {
				all = append(all, b.Taken()...)
			}
			sort.Slice(all, func(i, j int) bool { return all[i].Seq < all[j].Seq })
			st.Contacted = []string{}
			for _, x := range all {
				st.Contacted = append(st.Contacted, x.Backend)
			}
		case "overlap":
			reqNo++
			for _, b := range backends {
				b.Taken()
			}
			arrived, release := make(chan string, 8), make(chan struct{})
			for _, b := range backends {
				name := b.Name
				b.SetScript(func(int, *stack.Seen) stack.Behaviour {
					select {
					case arrived <- name:
					default:
					}
					<-release
					return stack.Behaviour{Kind: "reset0"}
				})
			}
			body := fmt.Sprintf(`{"messages":[{"role":"user","content":"o%d"}]}`, reqNo)
			raw := stack.Request("POST", "/olla/proxy/v1/chat/completions", s.Addr, [][2]string{{"Content-Type", "application/json"}}, []byte(body), false)
			done := make(chan *stack.Resp, 1)
			go func() { done <- stack.Do(s.Addr, raw, 8*time.Second) }()
			st.Held = ""
			select {
			case n := <-arrived:
				st.Held = n
				// a whole health-check round through the real checker: every backend answers its health probe with 200
				if hc, err := s.Disc.GetHealthChecker(); err == nil {
					_ = hc.RunHealthCheck(context.Background(), true)
				}
				st.Mid = quiesceStatuses(s)
			case <-time.After(1500 * time.Millisecond): // nobody was routable
			}
			// the held attempt dies; the endpoints behind it answer
			for _, b := range backends {
				if b.Name != st.Held {
					if k, ok := brokenNow[b.Name]; ok {
						b.SetBehaviour(stack.Behaviour{Kind: k})
					} else {
						b.SetBehaviour(scen.OkBeh(b.Name, 200, 20, false, "application/json"))
					}
				}
			}
			close(release)
			r := <-done
			st.Status = r.Status
			if st.Held != "" { // the held endpoint goes back to what it was doing
				if k, ok := brokenNow[st.Held]; ok {
					byName[st.Held].SetBehaviour(stack.Behaviour{Kind: k})
				} else {
					byName[st.Held].SetBehaviour(scen.OkBeh(st.Held, 200, 20, false, "application/json"))
				}
			}
			var all []*stack.Seen
			for _, b := range backends {
				all = append(all, b.Taken()...)
			}
			sort.Slice(all, func(i, j int) bool { return all[i].Seq < all[j].Seq })
			st.Contacted = []string{}
			for _, x := range all {
				st.Contacted = append(st.Contacted, x.Backend)
			}
		}
		st.After = quiesceStatuses(s)
		steps = append(steps, st)
	}
	return map[string]any{"steps": steps}
}

func genStack(r *vlib.Rng, engine, bal string, n int) *stackCase {
	sc := &stackCase{Engine: engine, Balancer: bal}
	for i := 0; i < n; i++ {
		sc.Names = append(sc.Names, []string{"A", "B", "C"}[i])
		if bal == "priority" {
			sc.Prios = append(sc.Prios, 300-100*i)
		} else {
			sc.Prios = append(sc.Prios, 100)
		}
	}
	broken := map[string]bool{}
	// the olla engine opens a per-endpoint circuit breaker after 5 failed round trips (C04/C08 territory):
	// an endpoint is mended for good before it can have failed that often
	risk := map[string]int{}
	retired := map[string]bool{}
	for len(sc.Ops) < 12+r.Intn(8) {
		e := vlib.Pick(r, sc.Names)
		switch x := r.Intn(12); {
		case x < 5:
			sc.Ops = append(sc.Ops, sop{Op: "req"})
			for _, n := range sc.Names {
				if broken[n] {
					risk[n]++
					if risk[n] >= 4 {
						broken[n], retired[n] = false, true
						sc.Ops = append(sc.Ops, sop{Op: "mend", E: n})
					}
				}
			}
		case x < 8:
			sc.Ops = append(sc.Ops, sop{Op: "set", E: e, S: vlib.Pick(r, statuses)})
		case x < 9:
			sc.Ops = append(sc.Ops, sop{Op: "set", E: e, S: "healthy"}) // a later check marks it routable again
		case x < 11 && !broken[e] && !retired[e]:
			broken[e] = true
			sc.Ops = append(sc.Ops, sop{Op: "break", E: e, Kind: vlib.Pick(r, []string{"reset0", "reset0", "close0"})})
		default:
			if broken[e] {
				broken[e] = false
				sc.Ops = append(sc.Ops, sop{Op: "mend", E: e})
			}
		}
	}
	sc.Ops = append(sc.Ops, sop{Op: "req"})
	return sc
}

// the hand-written corner histories: marked failed -> excluded -> readmitted
func cornerStacks() []*stackCase {
	var out []*stackCase
	for _, engine := range []string{"sherpa", "olla"} {
		for _, bal := range balancers {
			p := []int{300, 200}
			if bal != "priority" {
				p = []int{100, 100}
			}
			out = append(out,
				&stackCase{Engine: engine, Balancer: bal, Names: []string{"A", "B"}, Prios: p, Ops: []sop{
					{Op: "req"}, {Op: "break", E: "A", Kind: "reset0"}, {Op: "req"}, {Op: "req"}, {Op: "mend", E: "A"}, {Op: "req"}, {Op: "req"},
					{Op: "set", E: "A", S: "healthy"}, {Op: "req"}, {Op: "req"}}},
				// a health-check round passes the endpoint while it holds a request; then that attempt fails: the failure is the
				// newer fact, the endpoint gets nothing until a later check readmits it
				&stackCase{Engine: engine, Balancer: bal, Names: []string{"A", "B"}, Prios: p, Ops: []sop{
					{Op: "req"}, {Op: "overlap"}, {Op: "req"}, {Op: "req"}, {Op: "set", E: "A", S: "healthy"}, {Op: "set", E: "B", S: "healthy"}, {Op: "req"}, {Op: "overlap"}, {Op: "req"}, {Op: "req"}}},
				&stackCase{Engine: engine, Balancer: bal, Names: []string{"A", "B", "C"}, Prios: append(append([]int{}, p...), p[1]-map[bool]int{true: 100, false: 0}[bal == "priority"]), Ops: []sop{
					{Op: "set", E: "B", S: "unhealthy"}, {Op: "overlap"}, {Op: "req"}, {Op: "req"}, {Op: "overlap"}, {Op: "req"}, {Op: "req"}}},
				&stackCase{Engine: engine, Balancer: bal, Names: []string{"A", "B"}, Prios: p, Ops: []sop{
					{Op: "set", E: "A", S: "unhealthy"}, {Op: "req"}, {Op: "set", E: "B", S: "offline"}, {Op: "req"}, {Op: "set", E: "A", S: "busy"}, {Op: "req"},
					{Op: "set", E: "A", S: "warming"}, {Op: "req"}, {Op: "set", E: "B", S: "unknown"}, {Op: "req"}, {Op: "set", E: "B", S: "healthy"}, {Op: "req"}, {Op: "req"}}})
		}
	}
	return out
}

// ---------------------------------------------------------------- race

type write struct {
	T  int64  `json:"t"`  // ns since the start of the run, taken AFTER the write returned
	T0 int64  `json:"t0"` // … taken BEFORE the write was issued
	E  string `json:"e"`
	S  string `json:"s"`
}

type contact struct {
	Start int64  `json:"start"`
	End   int64  `json:"end"`
	E     string `json:"e"`
}

func runRace(engine, bal string, dur time.Duration, r *vlib.Rng) map[string]any {
	names := []string{"A", "B", "C"}
	backends := make([]*stack.Backend, 3)
	eps := make([]stack.EP, 3)
	for i, n := range names {
		backends[i] = stack.NewBackend(n)
		backends[i].KeepBodies = true
		eps[i] = stack.EP{Name: n, Type: "openai", Priority: 100, Backend: backends[i]}
	}
	defer func() {
		for _, b := range backends {
			b.Close()
		}
	}()
	s, err := stack.Start(stack.Opts{Vary: stack.VaryFor("c03.race", engine, bal), Engine: engine, Balancer: bal, Profile: "auto", EPs: eps})
	if err != nil {
		return map[string]any{"start_err": err.Error()}
	}
	defer s.Stop()
	for _, n := range names {
		s.SetStatus(n, domain.StatusHealthy)
	}
	t0 := time.Now()
	now := func() int64 { return time.Since(t0).Nanoseconds() }
	var mu sync.Mutex
	writes := []write{}
	for _, n := range names {
		writes = append(writes, write{T: 0, T0: 0, E: n, S: "healthy"})
	}
	var stop int32
	var wg sync.WaitGroup
	// one writer per endpoint, so the writes to one endpoint are totally ordered
	for i, n := range names {
		wg.Add(1)
		rr := r.Fork()
		go func(i int, n string) {
			defer wg.Done()
			for atomic.LoadInt32(&stop) == 0 {
				st := vlib.Pick(rr, statuses)
				a := now()
				s.SetStatus(n, domain.EndpointStatus(st))
				b := now()
				mu.Lock()
				writes = append(writes, write{T: b, T0: a, E: n, S: st})
				mu.Unlock()
				time.Sleep(time.Duration(200+rr.Intn(1500)) * time.Microsecond)
			}
		}(i, n)
	}
	type sent struct {
		id         int
		start, end int64
	}
	var sents []sent
	var idc int64
	for w := 0; w < 6; w++ {
		wg.Add(1)
		go func() {
			defer wg.Done()
			for atomic.LoadInt32(&stop) == 0 {
				id := int(atomic.AddInt64(&idc, 1))
				raw := stack.Request("POST", "/olla/proxy/v1/chat/completions", s.Addr, [][2]string{{"Content-Type", "application/json"}}, []byte(fmt.Sprintf(`{"messages":[{"role":"user","content":"#rq-%d#"}]}`, id)), false)
				a := now()
				stack.Do(s.Addr, raw, 5*time.Second)
				b := now()
				mu.Lock()
				sents = append(sents, sent{id, a, b})
				mu.Unlock()
			}
		}()
	}
	time.Sleep(dur)
	atomic.StoreInt32(&stop, 1)
	wg.Wait()
	span := map[int]sent{}
	for _, x := range sents {
		span[x.id] = x
	}
	contacts := []contact{}
	for i, b := range backends {
		for _, x := range b.Taken() {
			body := string(x.Body)
			a := strings.Index(body, "#rq-")
			if a < 0 {
				continue
			}
			var id int
			fmt.Sscanf(body[a:], "#rq-%d#", &id)
			if sp, ok := span[id]; ok {
				contacts = append(contacts, contact{sp.start, sp.end, names[i]})
			}
		}
	}
	sort.Slice(writes, func(i, j int) bool { return writes[i].T0 < writes[j].T0 })
	return map[string]any{"writes": writes, "contacts": contacts, "requests": len(sents)}
}

func main() {
	tier := vlib.Tier()
	r := vlib.NewRng(vlib.Seed())
	c := vlib.OpenCases("cases.jsonl")
	thorough := tier == "thorough"

	if rp := vlib.ReplayPath(); rp != "" {
		var rep struct {
			FailingCase map[string]json.RawMessage `json:"failing_case"`
		}
		b, _ := os.ReadFile(rp)
		json.Unmarshal(b, &rep)
		var kind string
		json.Unmarshal(rep.FailingCase["kind"], &kind)
		switch kind {
		case "table":
			var eps []ep
			json.Unmarshal(rep.FailingCase["eps"], &eps)
			caseTable(c, eps)
		case "history":
			var eps []ep
			var ops []hop
			json.Unmarshal(rep.FailingCase["eps"], &eps)
			json.Unmarshal(rep.FailingCase["ops"], &ops)
			caseHistory(c, eps, ops)
		case "stack":
			var sc stackCase
			json.Unmarshal(rep.FailingCase["scenario"], &sc)
			c.Emit(map[string]any{"kind": "stack", "scenario": sc, "impl": runStack(&sc)})
		default:
			var p struct{ Engine, Balancer string }
			json.Unmarshal(rep.FailingCase["scenario"], &p)
			c.Emit(map[string]any{"kind": "race", "scenario": map[string]any{"engine": p.Engine, "balancer": p.Balancer}, "impl": runRace(p.Engine, p.Balancer, 1500*time.Millisecond, r)})
		}
		c.Close(map[string]any{})
		return
	}

	// table: statuses^n x priority patterns, n <= 4 (exhaustive)
	patterns := map[int][][]int{1: {{100}}, 2: {{100, 100}, {200, 100}, {100, 200}}, 3: {{100, 100, 100}, {300, 200, 100}, {100, 200, 200}, {200, 100, 200}},
		4: {{100, 100, 100, 100}, {400, 300, 200, 100}, {100, 200, 200, 100}, {300, 300, 100, 100}}}
	for n := 1; n <= 4; n++ {
		total := 1
		for i := 0; i < n; i++ {
			total *= len(statuses)
		}
		for v := 0; v < total; v++ {
			for _, pat := range patterns[n] {
				eps := make([]ep, n)
				x := v
				for i := 0; i < n; i++ {
					eps[i] = ep{i, pat[i], statuses[x%len(statuses)]}
					x /= len(statuses)
				}
				caseTable(c, eps)
				c.Count(fmt.Sprintf("table.n%d", n))
			}
		}
	}
	// histories
	nh := 3000
	if thorough {
		nh = 20000
	}
	// the corner history first: a stale snapshot, a scribbled snapshot, a status nobody wrote
	caseHistory(c, []ep{{0, 200, ""}, {1, 100, ""}}, []hop{{Op: "update", E: 0, S: "healthy"}, {Op: "update", E: 1, S: "offline"}, {Op: "snap", K: 0, Src: "all"},
		{Op: "mutate", K: 0, I: 1, S: "healthy"}, {Op: "snap", K: 1, Src: "healthy"}, {Op: "select", K: 1, Bal: "round-robin"}, {Op: "select", K: 1, Bal: "round-robin"},
		{Op: "update", E: 0, S: "unhealthy"}, {Op: "select", K: 1, Bal: "priority"}, {Op: "snap", K: 2, Src: "healthy"}, {Op: "select", K: 2, Bal: "least-connections"}})
	c.Count("history.corner")
	for i := 0; i < nh; i++ {
		n := 1 + r.Intn(4)
		eps := make([]ep, n)
		for j := range eps {
			eps[j] = ep{j, vlib.Pick(r, []int{100, 100, 200, 300}), ""}
		}
		caseHistory(c, eps, genHistory(r, n))
		c.Count(fmt.Sprintf("history.n%d", n))
	}
	// stack histories
	var scs []*stackCase
	scs = append(scs, cornerStacks()...)
	ns := 16
	if thorough {
		ns = 60
	}
	for _, engine := range []string{"sherpa", "olla"} {
		for _, bal := range balancers {
			for i := 0; i < ns; i++ {
				sc := genStack(r, engine, bal, 2+r.Intn(2))
				switch i % 4 {
				case 1:
					sc.Strategy = "discovery-all"
				case 3:
					sc.Strategy = "optimistic-all"
				}
				scs = append(scs, sc)
			}
		}
	}
	out := make([]map[string]any, len(scs))
	scen.ParallelMap(len(scs), 12, func(i int) { out[i] = runStack(scs[i]) })
	for i, sc := range scs {
		c.Count("stack." + sc.Engine + "." + sc.Balancer)
		c.Emit(map[string]any{"kind": "stack", "scenario": sc, "impl": out[i]})
	}
	// concurrent writers + senders
	dur := 700 * time.Millisecond
	if thorough {
		dur = 5 * time.Second
	}
	type rc struct{ engine, bal string }
	var rcs []rc
	for _, engine := range []string{"sherpa", "olla"} {
		for _, bal := range balancers {
			rcs = append(rcs, rc{engine, bal})
		}
	}
	rout := make([]map[string]any, len(rcs))
	rngs := make([]*vlib.Rng, len(rcs))
	for i := range rcs {
		rngs[i] = r.Fork()
	}
	scen.ParallelMap(len(rcs), 3, func(i int) { rout[i] = runRace(rcs[i].engine, rcs[i].bal, dur, rngs[i]) })
	for i, x := range rcs {
		c.Count("race." + x.engine + "." + x.bal)
		c.Emit(map[string]any{"kind": "race", "scenario": map[string]any{"engine": x.engine, "balancer": x.bal}, "impl": rout[i]})
	}
	c.Close(map[string]any{"exhaustive": true,
		"exhaustive_note": "table: all 6^n status assignments x 1/3/4/4 priority patterns for n = 1..4 endpoints on the real repository + three real selectors (exhaustive); op histories, stack histories and concurrent writer/sender runs are sampled"})
}
