//go:build verif

// c03: only healthy, eligible endpoints receive traffic.
//
//	table    the real StaticEndpointRepository (LoadFromConfig, the way the unit tests build it) with every
//	         status x priority-pattern assignment for n <= 4 endpoints: GetHealthy / GetRoutable, and the three
//	         real selectors from balancer.NewFactory on the healthy snapshot and on the full list
//	history  op histories on the real repository: UpdateEndpoint, snapshot (GetHealthy / GetAll / GetRoutable),
//	         scribbling on a snapshot's records after it was taken, Select on a (possibly stale) snapshot
//	stack    the production wiring with scripted backends: sequential histories of status writes, requests
//	         hitting failing backends (proxy-detected failure -> offline), recoveries, interleaved with requests;
//	         every backend contact is checked against the repository's status when the request was sent
//	life     ONE long-lived production stack per case, taken through a long generated history: requests held by the
//	         endpoint they reached (their candidate snapshot ages), released with a reset / close / answer, real
//	         health-check rounds (RunHealthCheck, the scheduler's ticker body), failing probes, status writes, breaks,
//	         plain requests of different shapes — every contact judged against what was known when ITS request arrived
//	race     concurrent status writers + request senders on one stack; interval check per contact
package main

import (
	"context"
	"encoding/json"
	"fmt"
	"os"
	"sort"
	"strings"
	"sync"
	"sync/atomic"
	"time"

	"github.com/thushan/olla/internal/adapter/balancer"
	"github.com/thushan/olla/internal/adapter/discovery"
	"github.com/thushan/olla/internal/adapter/health"
	"github.com/thushan/olla/internal/adapter/proxy/olla"
	"github.com/thushan/olla/internal/adapter/registry/profile"
	"github.com/thushan/olla/internal/adapter/stats"
	"github.com/thushan/olla/internal/config"
	"github.com/thushan/olla/internal/core/domain"
	"github.com/thushan/olla/internal/zz_verif/scen"
	"github.com/thushan/olla/internal/zz_verif/stack"
	"github.com/thushan/olla/internal/zz_verif/vlib"
)

var statuses = []string{"healthy", "busy", "offline", "warming", "unhealthy", "unknown"}
var balancers = []string{"priority", "round-robin", "least-connections"}

type ep struct {
	ID     int    `json:"id"`
	Prio   int    `json:"prio"`
	Status string `json:"status"`
}

func urlOf(id int) string { return fmt.Sprintf("http://10.9.0.%d:11434", id+1) }

var profileFactory = func() *profile.Factory {
	f, err := profile.NewFactoryWithDefaults() // what NewStaticEndpointRepository() does, once instead of per repository
	if err != nil {
		f, _ = profile.NewFactory("")
	}
	return f
}()

func newRepo(eps []ep) *discovery.StaticEndpointRepository {
	repo := discovery.NewStaticEndpointRepositoryWithFactory(profileFactory)
	var cfgs []config.EndpointConfig
	for _, e := range eps {
		p := e.Prio
		cfgs = append(cfgs, config.EndpointConfig{URL: urlOf(e.ID), Name: fmt.Sprintf("e%d", e.ID), Type: "openai", Priority: &p,
			HealthCheckURL: "/health", ModelURL: "/v1/models", CheckInterval: 5 * time.Second, CheckTimeout: 2 * time.Second})
	}
	if err := repo.LoadFromConfig(context.Background(), cfgs); err != nil {
		panic(err)
	}
	return repo
}

func idOfURL(u string) int {
	var a int
	if _, err := fmt.Sscanf(u, "http://10.9.0.%d:11434", &a); err != nil {
		return -2
	}
	return a - 1
}

// update writes a status the way the health checker does: copy of the stored record, UpdateEndpoint.
func update(repo *discovery.StaticEndpointRepository, id int, st string) {
	all, _ := repo.GetAll(context.Background())
	for _, e := range all {
		if e.URLString == urlOf(id) {
			cp := *e
			cp.Status = domain.EndpointStatus(st)
			repo.UpdateEndpoint(context.Background(), &cp)
			return
		}
	}
}

func sorted(l []*domain.Endpoint) []*domain.Endpoint {
	out := append([]*domain.Endpoint{}, l...)
	sort.Slice(out, func(i, j int) bool { return out[i].URLString < out[j].URLString })
	return out
}

func ids(l []*domain.Endpoint) []int {
	out := []int{}
	for _, e := range sorted(l) {
		out = append(out, idOfURL(e.URLString))
	}
	return out
}

func recs(l []*domain.Endpoint) []ep {
	out := []ep{}
	for _, e := range sorted(l) {
		out = append(out, ep{idOfURL(e.URLString), e.Priority, string(e.Status)})
	}
	return out
}

func newSel(name string) domain.EndpointSelector {
	s, err := balancer.NewFactory(stats.NewCollector(vlib.QuietLogger())).Create(name)
	if err != nil {
		panic(err)
	}
	return s
}

// pick returns the id the selector chose from l (-1: error, -2: something that is not in l).
func pick(sel domain.EndpointSelector, l []*domain.Endpoint) int {
	var e *domain.Endpoint
	var err error
	func() {
		defer func() {
			if recover() != nil {
				err = fmt.Errorf("panic")
			}
		}()
		e, err = sel.Select(context.Background(), l)
	}()
	if err != nil || e == nil {
		return -1
	}
	for _, x := range l {
		if x == e {
			return idOfURL(e.URLString)
		}
	}
	return -2
}

func pickSet(sel domain.EndpointSelector, l []*domain.Endpoint, draws int) []int {
	seen := map[int]bool{}
	for i := 0; i < draws; i++ {
		seen[pick(sel, l)] = true
	}
	out := []int{}
	for k := range seen {
		out = append(out, k)
	}
	sort.Ints(out)
	return out
}

func caseTable(c *vlib.Cases, eps []ep) {
	repo := newRepo(eps)
	for _, e := range eps {
		update(repo, e.ID, e.Status)
	}
	ctx := context.Background()
	h, _ := repo.GetHealthy(ctx)
	ro, _ := repo.GetRoutable(ctx)
	all, _ := repo.GetAll(ctx)
	hs, as := sorted(h), sorted(all)
	impl := map[string]any{"healthy": recs(h), "routable": ids(ro), "all": recs(all),
		"on_healthy": map[string]any{"priority": pickSet(newSel("priority"), hs, 24), "round-robin": pick(newSel("round-robin"), hs), "least-connections": pick(newSel("least-connections"), hs)},
		"on_all":     map[string]any{"priority": pickSet(newSel("priority"), as, 24), "round-robin": pick(newSel("round-robin"), as), "least-connections": pick(newSel("least-connections"), as)}}
	c.Emit(map[string]any{"kind": "table", "eps": eps, "impl": impl})
}

type hop struct {
	Op  string `json:"op"` // update | snap | mutate | select
	E   int    `json:"e,omitempty"`
	S   string `json:"s,omitempty"`
	K   int    `json:"k,omitempty"`   // snapshot slot
	Src string `json:"src,omitempty"` // healthy | all | routable
	I   int    `json:"i,omitempty"`   // index into the snapshot (sorted by id)
	Bal string `json:"bal,omitempty"`
}

type hstep struct {
	Repo []ep  `json:"repo"`           // the repository after the op (GetAll)
	Snap []ep  `json:"snap,omitempty"` // records of the snapshot touched by the op, as they read now
	Sel  []int `json:"sel,omitempty"`  // select: ids picked (one, or the set over 16 draws for priority)
}

func caseHistory(c *vlib.Cases, eps []ep, ops []hop) {
	repo := newRepo(eps)
	ctx := context.Background()
	snaps := map[int][]*domain.Endpoint{}
	sels := map[string]domain.EndpointSelector{}
	for _, b := range balancers {
		sels[b] = newSel(b)
	}
	var steps []hstep
	for _, o := range ops {
		var st hstep
		switch o.Op {
		case "update":
			update(repo, o.E, o.S)
		case "snap":
			var l []*domain.Endpoint
			switch o.Src {
			case "all":
				l, _ = repo.GetAll(ctx)
			case "routable":
				l, _ = repo.GetRoutable(ctx)
			default:
				l, _ = repo.GetHealthy(ctx)
			}
			snaps[o.K] = sorted(l)
			st.Snap = recs(snaps[o.K])
		case "mutate":
			l := snaps[o.K]
			if o.I < len(l) {
				l[o.I].Status = domain.EndpointStatus(o.S)
			}
			st.Snap = recs(l)
		case "select":
			l := snaps[o.K]
			if o.Bal == "priority" {
				st.Sel = pickSet(sels[o.Bal], l, 16)
			} else {
				st.Sel = []int{pick(sels[o.Bal], l)}
			}
			st.Snap = recs(l)
		}
		all, _ := repo.GetAll(ctx)
		st.Repo = recs(all)
		steps = append(steps, st)
	}
	c.Emit(map[string]any{"kind": "history", "eps": eps, "ops": ops, "impl": map[string]any{"steps": steps}})
}

func genHistory(r *vlib.Rng, n int) []hop {
	var ops []hop
	taken := 0
	snapLen := map[int]int{}
	for len(ops) < 10+r.Intn(14) {
		switch x := r.Intn(10); {
		case x < 3:
			ops = append(ops, hop{Op: "update", E: r.Intn(n), S: vlib.Pick(r, statuses)})
		case x < 5 || taken == 0:
			k := taken % 3
			taken++
			snapLen[k] = n
			ops = append(ops, hop{Op: "snap", K: k, Src: vlib.Pick(r, []string{"healthy", "healthy", "all", "routable"})})
		case x < 7:
			ops = append(ops, hop{Op: "mutate", K: r.Intn(min(taken, 3)), I: r.Intn(n), S: vlib.Pick(r, statuses)})
		default:
			ops = append(ops, hop{Op: "select", K: r.Intn(min(taken, 3)), Bal: vlib.Pick(r, balancers)})
		}
	}
	return ops
}

// ---------------------------------------------------------------- stack

type sop struct {
	Op   string `json:"op"` // set | req | break | mend | overlap (a request is held by the endpoint it was dispatched to; a health-check round passes every endpoint; then the held attempt is reset)
	E    string `json:"e,omitempty"`
	S    string `json:"s,omitempty"`
	Kind string `json:"kind,omitempty"` // break: reset0 | close0
}

type sstep struct {
	Before    map[string]string `json:"before"`              // repository statuses when the op started (for req: when the request was sent)
	After     map[string]string `json:"after"`               // … when it was over (quiesced)
	Contacted []string          `json:"contacted,omitempty"` // req: backends that received it, in order
	Status    int               `json:"status,omitempty"`
	Held      string            `json:"held,omitempty"` // overlap: the endpoint that held the request while the health-check round ran
	Mid       map[string]string `json:"mid,omitempty"`  // overlap: repository statuses after the health-check round, the attempt still held
}

type stackCase struct {
	Engine   string   `json:"engine"`
	Balancer string   `json:"balancer"`
	Names    []string `json:"names"`
	Prios    []int    `json:"prios"`
	Ops      []sop    `json:"ops"`
	// Strategy: "" = default routing; "discovery-all" / "optimistic-all" = model_registry.routing_strategy of that type
	// with fallback_behavior all (and discovery_refresh_on_miss), requests name a model nobody lists: the candidate
	// set is "every healthy endpoint", computed per request
	Strategy string `json:"strategy,omitempty"`
}

func quiesceStatuses(s *stack.Stack) map[string]string {
	stack.Quiesce(func() string { return fmt.Sprint(s.Statuses(), s.Stats.GetConnectionStats()) })
	return s.Statuses()
}

func runStack(sc *stackCase) map[string]any {
	backends := make([]*stack.Backend, len(sc.Names))
	eps := make([]stack.EP, len(sc.Names))
	byName := map[string]*stack.Backend{}
	for i, n := range sc.Names {
		backends[i] = stack.NewBackend(n)
		byName[n] = backends[i]
		eps[i] = stack.EP{Name: n, Type: "openai", Priority: sc.Prios[i], Backend: backends[i]}
	}
	defer func() {
		for _, b := range backends {
			b.Close()
		}
	}()
	s, err := stack.Start(stack.Opts{Vary: stack.VaryForJSON("c03.stack", sc), Engine: sc.Engine, Balancer: sc.Balancer, Profile: "auto", EPs: eps, Mutate: func(cfg *config.Config) {
		switch sc.Strategy {
		case "discovery-all":
			cfg.ModelRegistry.RoutingStrategy.Type = "discovery"
			cfg.ModelRegistry.RoutingStrategy.Options.DiscoveryRefreshOnMiss = true
			cfg.ModelRegistry.RoutingStrategy.Options.FallbackBehavior = "all"
		case "optimistic-all":
			cfg.ModelRegistry.RoutingStrategy.Type = "optimistic"
			cfg.ModelRegistry.RoutingStrategy.Options.FallbackBehavior = "all"
		}
	}})
	if err != nil {
		return map[string]any{"start_err": err.Error()}
	}
	defer s.Stop()
	for _, n := range sc.Names {
		s.SetStatus(n, domain.StatusHealthy)
	}
	var steps []sstep
	reqNo := 0
	brokenNow := map[string]string{}
	for _, o := range sc.Ops {
		st := sstep{Before: s.Statuses()}
		switch o.Op {
		case "set":
			s.SetStatus(o.E, domain.EndpointStatus(o.S))
		case "break":
			byName[o.E].SetBehaviour(stack.Behaviour{Kind: o.Kind})
			brokenNow[o.E] = o.Kind
		case "mend":
			byName[o.E].SetBehaviour(scen.OkBeh(o.E, 200, 20, false, "application/json"))
			delete(brokenNow, o.E)
		case "req":
			reqNo++
			for _, b := range backends {
				b.Taken()
			}
			body := fmt.Sprintf(`{"messages":[{"role":"user","content":"r%d"}]}`, reqNo)
			if sc.Strategy != "" {
				body = fmt.Sprintf(`{"model":"zz-nobody-lists-%d","messages":[{"role":"user","content":"r%d"}]}`, reqNo%2, reqNo)
			}
			raw := stack.Request("POST", "/olla/proxy/v1/chat/completions", s.Addr, [][2]string{{"Content-Type", "application/json"}}, []byte(body), false)
			r := stack.Do(s.Addr, raw, 5*time.Second)
			st.Status = r.Status
			var all []*stack.Seen
			for _, b := range backends {
				all = append(all, b.Taken()...)
			}
			sort.Slice(all, func(i, j int) bool { return all[i].Seq < all[j].Seq })
			st.Contacted = []string{}
			for _, x := range all {
				st.Contacted = append(st.Contacted, x.Backend)
			}
		case "overlap":
			reqNo++
			for _, b := range backends {
				b.Taken()
			}
			arrived, release := make(chan string, 8), make(chan struct{})
			for _, b := range backends {
				name := b.Name
				b.SetScript(func(int, *stack.Seen) stack.Behaviour {
					select {
					case arrived <- name:
					default:
					}
					<-release
					return stack.Behaviour{Kind: "reset0"}
				})
			}
			body := fmt.Sprintf(`{"messages":[{"role":"user","content":"o%d"}]}`, reqNo)
			raw := stack.Request("POST", "/olla/proxy/v1/chat/completions", s.Addr, [][2]string{{"Content-Type", "application/json"}}, []byte(body), false)
			done := make(chan *stack.Resp, 1)
			go func() { done <- stack.Do(s.Addr, raw, 8*time.Second) }()
			st.Held = ""
			select {
			case n := <-arrived:
				st.Held = n
				// a whole health-check round through the real checker: every backend answers its health probe with 200
				if hc, err := s.Disc.GetHealthChecker(); err == nil {
					_ = hc.RunHealthCheck(context.Background(), true)
				}
				st.Mid = quiesceStatuses(s)
			case <-time.After(1500 * time.Millisecond): // nobody was routable
			}
			// the held attempt dies; the endpoints behind it answer
			for _, b := range backends {
				if b.Name != st.Held {
					if k, ok := brokenNow[b.Name]; ok {
						b.SetBehaviour(stack.Behaviour{Kind: k})
					} else {
						b.SetBehaviour(scen.OkBeh(b.Name, 200, 20, false, "application/json"))
					}
				}
			}
			close(release)
			r := <-done
			st.Status = r.Status
			if st.Held != "" { // the held endpoint goes back to what it was doing
				if k, ok := brokenNow[st.Held]; ok {
					byName[st.Held].SetBehaviour(stack.Behaviour{Kind: k})
				} else {
					byName[st.Held].SetBehaviour(scen.OkBeh(st.Held, 200, 20, false, "application/json"))
				}
			}
			var all []*stack.Seen
			for _, b := range backends {
				all = append(all, b.Taken()...)
			}
			sort.Slice(all, func(i, j int) bool { return all[i].Seq < all[j].Seq })
			st.Contacted = []string{}
			for _, x := range all {
				st.Contacted = append(st.Contacted, x.Backend)
			}
		}
		st.After = quiesceStatuses(s)
		steps = append(steps, st)
	}
	return map[string]any{"steps": steps}
}

func genStack(r *vlib.Rng, engine, bal string, n int) *stackCase {
	sc := &stackCase{Engine: engine, Balancer: bal}
	for i := 0; i < n; i++ {
		sc.Names = append(sc.Names, []string{"A", "B", "C"}[i])
		if bal == "priority" {
			sc.Prios = append(sc.Prios, 300-100*i)
		} else {
			sc.Prios = append(sc.Prios, 100)
		}
	}
	broken := map[string]bool{}
	// the olla engine opens a per-endpoint circuit breaker after 5 failed round trips (C04/C08 territory):
	// an endpoint is mended for good before it can have failed that often
	risk := map[string]int{}
	retired := map[string]bool{}
	for len(sc.Ops) < 12+r.Intn(8) {
		e := vlib.Pick(r, sc.Names)
		switch x := r.Intn(12); {
		case x < 5:
			sc.Ops = append(sc.Ops, sop{Op: "req"})
			for _, n := range sc.Names {
				if broken[n] {
					risk[n]++
					if risk[n] >= 4 {
						broken[n], retired[n] = false, true
						sc.Ops = append(sc.Ops, sop{Op: "mend", E: n})
					}
				}
			}
		case x < 8:
			sc.Ops = append(sc.Ops, sop{Op: "set", E: e, S: vlib.Pick(r, statuses)})
		case x < 9:
			sc.Ops = append(sc.Ops, sop{Op: "set", E: e, S: "healthy"}) // a later check marks it routable again
		case x < 11 && !broken[e] && !retired[e]:
			broken[e] = true
			sc.Ops = append(sc.Ops, sop{Op: "break", E: e, Kind: vlib.Pick(r, []string{"reset0", "reset0", "close0"})})
		default:
			if broken[e] {
				broken[e] = false
				sc.Ops = append(sc.Ops, sop{Op: "mend", E: e})
			}
		}
	}
	sc.Ops = append(sc.Ops, sop{Op: "req"})
	return sc
}

// the hand-written corner histories: marked failed -> excluded -> readmitted
func cornerStacks() []*stackCase {
	var out []*stackCase
	for _, engine := range []string{"sherpa", "olla"} {
		for _, bal := range balancers {
			p := []int{300, 200}
			if bal != "priority" {
				p = []int{100, 100}
			}
			out = append(out,
				&stackCase{Engine: engine, Balancer: bal, Names: []string{"A", "B"}, Prios: p, Ops: []sop{
					{Op: "req"}, {Op: "break", E: "A", Kind: "reset0"}, {Op: "req"}, {Op: "req"}, {Op: "mend", E: "A"}, {Op: "req"}, {Op: "req"},
					{Op: "set", E: "A", S: "healthy"}, {Op: "req"}, {Op: "req"}}},
				// a health-check round passes the endpoint while it holds a request; then that attempt fails: the failure is the
				// newer fact, the endpoint gets nothing until a later check readmits it
				&stackCase{Engine: engine, Balancer: bal, Names: []string{"A", "B"}, Prios: p, Ops: []sop{
					{Op: "req"}, {Op: "overlap"}, {Op: "req"}, {Op: "req"}, {Op: "set", E: "A", S: "healthy"}, {Op: "set", E: "B", S: "healthy"}, {Op: "req"}, {Op: "overlap"}, {Op: "req"}, {Op: "req"}}},
				&stackCase{Engine: engine, Balancer: bal, Names: []string{"A", "B", "C"}, Prios: append(append([]int{}, p...), p[1]-map[bool]int{true: 100, false: 0}[bal == "priority"]), Ops: []sop{
					{Op: "set", E: "B", S: "unhealthy"}, {Op: "overlap"}, {Op: "req"}, {Op: "req"}, {Op: "overlap"}, {Op: "req"}, {Op: "req"}}},
				&stackCase{Engine: engine, Balancer: bal, Names: []string{"A", "B"}, Prios: p, Ops: []sop{
					{Op: "set", E: "A", S: "unhealthy"}, {Op: "req"}, {Op: "set", E: "B", S: "offline"}, {Op: "req"}, {Op: "set", E: "A", S: "busy"}, {Op: "req"},
					{Op: "set", E: "A", S: "warming"}, {Op: "req"}, {Op: "set", E: "B", S: "unknown"}, {Op: "req"}, {Op: "set", E: "B", S: "healthy"}, {Op: "req"}, {Op: "req"}}})
		}
	}
	return out
}

// ---------------------------------------------------------------- life
//
// One LONG-LIVED production stack taken through a generated history in which requests of different shapes are
// in flight WHILE the status writers run: a request can be held by the endpoint it reached (its candidate snapshot
// ages meanwhile), released with a connection reset (the system fails over and records the failure), a clean
// close or an answer; in between: real health-check rounds (the production checker's RunHealthCheck, and the
// scheduler's ticker body for the endpoints that are due), health probes that fail, direct status writes, backends
// that break and mend, plain requests.  Every step is driven from one goroutine and waited for by event (a held
// request has arrived at a backend / the client has its response), so the order of the history is known.

type lop struct {
	Op   string   `json:"op"` // set | break | mend | sick | well | check | tick | sweep | req | hold | release
	E    string   `json:"e,omitempty"`
	S    string   `json:"s,omitempty"`
	Kind string   `json:"kind,omitempty"` // break: reset0 | close0
	K    int      `json:"k,omitempty"`    // release: which of the held requests (mod their number)
	How  string   `json:"how,omitempty"`  // release: fail (RST before any answer) | close (EOF before any answer) | ok
	Due  []string `json:"due,omitempty"`  // tick: the endpoints whose next check time has come
	Path int      `json:"path,omitempty"` // req / hold: which route
	Pad  int      `json:"pad,omitempty"`  // req / hold: padding of the body
	CT   int      `json:"ct,omitempty"`   // req / hold: which content type
}

type lstep struct {
	lop                         // the op as it was carried out (a release of nothing, a hold above the limit: op "skip")
	Before    map[string]string `json:"before"`
	After     map[string]string `json:"after"`
	Rid       int               `json:"rid,omitempty"`
	Contacted []string          `json:"contacted,omitempty"` // req: backends that received it, in order
	Status    int               `json:"status,omitempty"`    // the client's status, when the request completed in this step
	Done      bool              `json:"done,omitempty"`      // the request completed in this step
	At        string            `json:"at,omitempty"`        // hold: the endpoint that holds it now
	From      string            `json:"from,omitempty"`      // release: the endpoint that held it
	Next      string            `json:"next,omitempty"`      // release: the endpoint that holds it now (failed over)
	Results   map[string]string `json:"results,omitempty"`   // check / tick: what the round stored for each endpoint it checked
	Mended    []string          `json:"mended,omitempty"`    // backends mended by the runner before they answered in this step
	Healed    []string          `json:"healed,omitempty"`    // probes healed by the runner before this round
}

type lifeCase struct {
	Engine   string   `json:"engine"`
	Balancer string   `json:"balancer"`
	Names    []string `json:"names"`
	Prios    []int    `json:"prios"`
	Strategy string   `json:"strategy,omitempty"`
	Ops      []lop    `json:"ops"`
}

var lifePaths = []string{"/olla/proxy/v1/chat/completions", "/olla/openai/v1/chat/completions"}
var lifeCTs = []string{"application/json", "application/json; charset=utf-8"}

type lifeEv struct {
	at   string
	gate chan stack.Behaviour
	resp *stack.Resp
}

type lifeHeld struct {
	rid  int
	at   string
	gate chan stack.Behaviour
	ev   chan lifeEv
}

// settleDeadline: how long one step may take to show its effect (loaded machine) before the history is given up.
const settleDeadline = 40 * time.Second

func ridOf(body []byte) int {
	a := strings.Index(string(body[:min(len(body), 400)]), "#rq-")
	if a < 0 {
		return -1
	}
	var id int
	if _, err := fmt.Sscanf(string(body[a:min(len(body), a+40)]), "#rq-%d#", &id); err != nil {
		return -1
	}
	return id
}

func runLife(sc *lifeCase) map[string]any {
	backends := make([]*stack.Backend, len(sc.Names))
	eps := make([]stack.EP, len(sc.Names))
	byName := map[string]*stack.Backend{}
	for i, n := range sc.Names {
		backends[i] = stack.NewBackend(n)
		backends[i].KeepBodies = true
		byName[n] = backends[i]
		eps[i] = stack.EP{Name: n, Type: "openai", Priority: sc.Prios[i], Backend: backends[i]}
	}
	defer func() {
		for _, b := range backends {
			b.Close()
		}
	}()
	s, err := stack.Start(stack.Opts{Vary: stack.VaryForJSON("c03.life", sc), Engine: sc.Engine, Balancer: sc.Balancer, Profile: "auto", EPs: eps, Mutate: func(cfg *config.Config) {
		switch sc.Strategy {
		case "discovery-all":
			cfg.ModelRegistry.RoutingStrategy.Type = "discovery"
			cfg.ModelRegistry.RoutingStrategy.Options.DiscoveryRefreshOnMiss = true
			cfg.ModelRegistry.RoutingStrategy.Options.FallbackBehavior = "all"
		case "optimistic-all":
			cfg.ModelRegistry.RoutingStrategy.Type = "optimistic"
			cfg.ModelRegistry.RoutingStrategy.Options.FallbackBehavior = "all"
		}
	}})
	if err != nil {
		return map[string]any{"start_err": err.Error()}
	}
	defer s.Stop()
	hc, err := s.Disc.GetHealthChecker()
	if err != nil {
		return map[string]any{"start_err": "no health checker: " + err.Error()}
	}
	for _, n := range sc.Names {
		s.SetStatus(n, domain.StatusHealthy)
	}

	var mu sync.Mutex
	mode := map[int]string{}       // rid -> run | hold
	evs := map[int]chan lifeEv{}   // rid -> its events
	contacts := map[int][]string{} // rid -> backends reached, in order
	broken := map[string]string{}  // backend -> reset0 | close0 (what a request that is not held gets)
	// consecutive failed round trips per backend: the olla engine opens a per-endpoint circuit breaker at 5 (C04/C08
	// territory); the runner turns the 4th failure in a row into an answer, and says so in the step
	cf := map[string]int{}
	var mended []string
	for _, b := range backends {
		name := b.Name
		b.SetScript(func(_ int, seen *stack.Seen) stack.Behaviour {
			okB := scen.OkBeh(name, 200, 20, false, "application/json")
			rid := ridOf(seen.Body)
			if rid < 0 { // not one of the history's requests (a model listing after a recovery, …)
				return okB
			}
			mu.Lock()
			contacts[rid] = append(contacts[rid], name)
			if mode[rid] == "hold" {
				ev := evs[rid]
				mu.Unlock()
				gate := make(chan stack.Behaviour, 1)
				ev <- lifeEv{at: name, gate: gate}
				return <-gate
			}
			defer mu.Unlock()
			if k, isBroken := broken[name]; isBroken {
				if cf[name] < 3 {
					cf[name]++
					return stack.Behaviour{Kind: k}
				}
				delete(broken, name)
				mended = append(mended, name)
			}
			cf[name] = 0
			return okB
		})
	}
	probeHits := func() int64 {
		var t int64
		for _, b := range backends {
			t += b.HealthHits()
		}
		return t
	}
	// the scheduler's own ticker (30 s) is kept out of the history: nothing becomes due unless a `tick` says so
	postpone := func() {
		all, _ := s.Repo.GetAll(context.Background())
		for _, e := range all {
			if time.Until(e.NextCheckTime) < 5*time.Minute {
				cp := *e
				cp.NextCheckTime = time.Now().Add(10 * time.Minute)
				s.Repo.UpdateEndpoint(context.Background(), &cp)
			}
		}
	}
	sickNow := map[string]bool{}
	sickRounds := map[string]int{} // consecutive failed probes: the health client has its own breaker at 3
	var held []*lifeHeld
	var steps []lstep
	unsettled, disturbed := false, false
	rid := 0
	send := func(o lop, m string) chan lifeEv {
		rid++
		ch := make(chan lifeEv, 16)
		mu.Lock()
		mode[rid], evs[rid] = m, ch
		mu.Unlock()
		content := fmt.Sprintf("#rq-%d# %s", rid, strings.Repeat("x", o.Pad))
		body := fmt.Sprintf(`{"messages":[{"role":"user","content":%q}]}`, content)
		if sc.Strategy != "" {
			body = fmt.Sprintf(`{"model":"zz-nobody-lists-%d","messages":[{"role":"user","content":%q}]}`, rid%2, content)
		}
		raw := stack.Request("POST", lifePaths[o.Path%len(lifePaths)], s.Addr, [][2]string{{"Content-Type", lifeCTs[o.CT%len(lifeCTs)]}}, []byte(body), false)
		go func() { ch <- lifeEv{resp: stack.Do(s.Addr, raw, 3*settleDeadline)} }()
		return ch
	}
	wait := func(ch chan lifeEv) (lifeEv, bool) {
		select {
		case ev := <-ch:
			return ev, true
		case <-time.After(settleDeadline):
			return lifeEv{}, false
		}
	}
	takeMended := func() []string {
		mu.Lock()
		defer mu.Unlock()
		m := mended
		mended = nil
		return m
	}
	release := func(h *lifeHeld, how string) {
		mu.Lock()
		switch how {
		case "fail", "close":
			cf[h.at]++
		default:
			cf[h.at] = 0
		}
		mu.Unlock()
		switch how {
		case "fail":
			h.gate <- stack.Behaviour{Kind: "reset0"}
		case "close":
			h.gate <- stack.Behaviour{Kind: "close0"}
		default:
			h.gate <- scen.OkBeh(h.at, 200, 20, false, "application/json")
		}
	}
	runOp := func(o lop) {
		st := lstep{lop: o, Before: s.Statuses()}
		hits0 := probeHits()
		switch o.Op {
		case "set":
			s.SetStatus(o.E, domain.EndpointStatus(o.S))
		case "break":
			mu.Lock()
			broken[o.E] = o.Kind
			mu.Unlock()
		case "mend":
			mu.Lock()
			delete(broken, o.E)
			mu.Unlock()
		case "sick":
			sickNow[o.E] = true
			atomic.StoreInt32(&byName[o.E].HealthStatus, 503)
		case "well":
			delete(sickNow, o.E)
			atomic.StoreInt32(&byName[o.E].HealthStatus, 0)
		case "sweep": // six idle minutes pass for the engine's per-endpoint pools, then its periodic clean-up pass runs (olla)
			if os, ok := s.Proxy.(*olla.Service); ok {
				olla.VerifCleanupPassAfter(os, 6*time.Minute)
			} else {
				st.Op = "skip"
			}
		case "check", "tick":
			checked := sc.Names
			if o.Op == "tick" {
				checked = o.Due
			}
			for _, n := range checked {
				if sickNow[n] && sickRounds[n] >= 2 {
					delete(sickNow, n)
					atomic.StoreInt32(&byName[n].HealthStatus, 0)
					st.Healed = append(st.Healed, n)
				}
			}
			ctx, cancel := context.WithTimeout(context.Background(), settleDeadline)
			if o.Op == "check" {
				_ = hc.RunHealthCheck(ctx, false)
			} else {
				for _, n := range o.Due {
					if e := s.Endpoint(n); e != nil {
						cp := *e
						cp.NextCheckTime = time.Now().Add(-time.Second)
						s.Repo.UpdateEndpoint(context.Background(), &cp)
					}
				}
				health.VerifTickerRound(hc, ctx)
			}
			if ctx.Err() != nil {
				unsettled = true
			}
			cancel()
			now := s.Statuses()
			st.Results = map[string]string{}
			for _, n := range checked {
				st.Results[n] = now[n]
				if sickNow[n] {
					sickRounds[n]++
				} else {
					sickRounds[n] = 0
				}
			}
			hits0 = probeHits()
		case "req":
			ch := send(o, "run")
			st.Rid = rid
			ev, ok := wait(ch)
			if !ok || ev.resp == nil {
				unsettled = true
				break
			}
			st.Status, st.Done = ev.resp.Status, true
			mu.Lock()
			st.Contacted = append([]string{}, contacts[rid]...)
			mu.Unlock()
		case "hold":
			if len(held) >= 3 {
				st.Op = "skip"
				break
			}
			ch := send(o, "hold")
			st.Rid = rid
			ev, ok := wait(ch)
			switch {
			case !ok:
				unsettled = true
			case ev.resp != nil:
				st.Status, st.Done = ev.resp.Status, true
			default:
				st.At = ev.at
				held = append(held, &lifeHeld{rid: rid, at: ev.at, gate: ev.gate, ev: ch})
			}
		case "release":
			if len(held) == 0 {
				st.Op = "skip"
				break
			}
			i := o.K % len(held)
			h := held[i]
			mu.Lock()
			if st.How != "ok" && cf[h.at] >= 3 {
				st.How = "ok"
			}
			mu.Unlock()
			st.Rid, st.From = h.rid, h.at
			release(h, st.How)
			ev, ok := wait(h.ev)
			switch {
			case !ok:
				unsettled = true
				held = append(held[:i], held[i+1:]...)
			case ev.resp != nil:
				st.Status, st.Done = ev.resp.Status, true
				held = append(held[:i], held[i+1:]...)
			default:
				st.Next = ev.at
				h.at, h.gate = ev.at, ev.gate
			}
		}
		st.Mended = takeMended()
		st.After = quiesceStatuses(s)
		if probeHits() != hits0 { // a check nobody asked for ran (the scheduler's own ticker): the history is no longer known
			disturbed = true
		}
		postpone()
		steps = append(steps, st)
	}
	for _, o := range sc.Ops {
		runOp(o)
		if unsettled || disturbed {
			break
		}
	}
	// whoever is still held is answered
	for len(held) > 0 && !unsettled && !disturbed {
		runOp(lop{Op: "release", K: 0, How: "ok"})
	}
	for _, h := range held { // given up: let the goroutines go
		select {
		case h.gate <- scen.OkBeh(h.at, 200, 20, false, "application/json"):
		default:
		}
	}
	return map[string]any{"steps": steps, "unsettled": unsettled, "disturbed": disturbed}
}

func shuffleOps(r *vlib.Rng, l []lop) {
	for i := len(l) - 1; i > 0; i-- {
		j := r.Intn(i + 1)
		l[i], l[j] = l[j], l[i]
	}
}

// genLife: a history of `length` ops (roughly) for one stack.  Free-running stretches (any op after any op) alternate
// with episodes in which several requests are in flight at once and their releases, the readmissions and further
// requests come in a drawn order.
func genLife(r *vlib.Rng, engine, bal string, n, length int) *lifeCase {
	sc := &lifeCase{Engine: engine, Balancer: bal}
	prios := []int{400, 300, 200, 100}[:n]
	shuffled := append([]int{}, prios...)
	for i := n - 1; i > 0; i-- {
		j := r.Intn(i + 1)
		shuffled[i], shuffled[j] = shuffled[j], shuffled[i]
	}
	for i := 0; i < n; i++ {
		sc.Names = append(sc.Names, []string{"A", "B", "C", "D"}[i])
		if bal == "priority" {
			sc.Prios = append(sc.Prios, shuffled[i])
		} else {
			sc.Prios = append(sc.Prios, 100)
		}
	}
	shape := func(op string) lop {
		return lop{Op: op, Path: r.Intn(len(lifePaths)), Pad: vlib.Pick(r, []int{0, 0, 0, 300, 5000, 70000}), CT: r.Intn(len(lifeCTs))}
	}
	how := func() string { return vlib.Pick(r, []string{"fail", "fail", "fail", "fail", "ok", "ok", "close"}) }
	readmit := func() lop {
		switch r.Intn(4) {
		case 0:
			return lop{Op: "set", E: vlib.Pick(r, sc.Names), S: "healthy"}
		case 1:
			due := []string{}
			for _, n := range sc.Names {
				if r.Chance(2, 3) {
					due = append(due, n)
				}
			}
			if len(due) == 0 {
				due = []string{vlib.Pick(r, sc.Names)}
			}
			return lop{Op: "tick", Due: due}
		default:
			return lop{Op: "check"}
		}
	}
	out := 0 // requests believed to be in flight
	brokenG, sickG := map[string]bool{}, map[string]bool{}
	for len(sc.Ops) < length {
		if r.Chance(1, 6) {
			h := 2 + r.Intn(2)
			for i := out; i < h; i++ {
				sc.Ops = append(sc.Ops, shape("hold"))
				out++
			}
			var ep []lop
			for i := 0; i < out; i++ {
				ep = append(ep, lop{Op: "release", K: r.Intn(3), How: how()})
			}
			for i := 1 + r.Intn(2); i > 0; i-- {
				ep = append(ep, readmit())
			}
			for i := 1 + r.Intn(3); i > 0; i-- {
				ep = append(ep, shape("req"))
			}
			shuffleOps(r, ep)
			sc.Ops = append(sc.Ops, ep...)
			out = r.Intn(out + 1) // some are done by now; the runner skips a release of nothing and a hold above its limit
			continue
		}
		e := vlib.Pick(r, sc.Names)
		switch x := r.Intn(20); {
		case x < 5:
			sc.Ops = append(sc.Ops, shape("req"))
		case x < 8:
			if out < 3 {
				out++
				sc.Ops = append(sc.Ops, shape("hold"))
			}
		case x < 12:
			if out > 0 {
				o := lop{Op: "release", K: r.Intn(3), How: how()}
				if o.How != "fail" || r.Chance(1, 2) { // a request that failed over may have run out of candidates
					out--
				}
				sc.Ops = append(sc.Ops, o)
			}
		case x < 14:
			sc.Ops = append(sc.Ops, readmit())
		case x < 17:
			sc.Ops = append(sc.Ops, lop{Op: "set", E: e, S: vlib.Pick(r, statuses)})
		case x < 18 && r.Chance(1, 3):
			sc.Ops = append(sc.Ops, lop{Op: "sweep"})
		case x < 18:
			if brokenG[e] {
				sc.Ops = append(sc.Ops, lop{Op: "mend", E: e})
			} else {
				sc.Ops = append(sc.Ops, lop{Op: "break", E: e, Kind: vlib.Pick(r, []string{"reset0", "reset0", "close0"})})
			}
			brokenG[e] = !brokenG[e]
		default:
			if sickG[e] {
				sc.Ops = append(sc.Ops, lop{Op: "well", E: e})
			} else {
				sc.Ops = append(sc.Ops, lop{Op: "sick", E: e})
			}
			sickG[e] = !sickG[e]
		}
	}
	sc.Ops = append(sc.Ops, lop{Op: "check"}, shape("req"))
	return sc
}

// the corner history of the class: two requests hold the same (old) reading of an endpoint; the first one's attempt
// fails, a real check readmits the endpoint, the second one's attempt fails: the failure is the newer fact
func cornerLives() []*lifeCase {
	var out []*lifeCase
	for _, engine := range []string{"sherpa", "olla"} {
		for _, bal := range balancers {
			p := []int{300, 200}
			if bal != "priority" {
				p = []int{100, 100}
			}
			out = append(out, &lifeCase{Engine: engine, Balancer: bal, Names: []string{"A", "B"}, Prios: p, Ops: []lop{
				{Op: "req"}, {Op: "hold"}, {Op: "hold"}, {Op: "hold"}, {Op: "release", K: 0, How: "fail"}, {Op: "check"}, {Op: "release", K: 1, How: "fail"},
				{Op: "req"}, {Op: "req"}, {Op: "release", K: 0, How: "fail"}, {Op: "tick", Due: []string{"A", "B"}}, {Op: "release", K: 0, How: "fail"}, {Op: "req"}, {Op: "req"},
				{Op: "release", K: 0, How: "ok"}, {Op: "release", K: 0, How: "ok"}, {Op: "req"}}})
		}
	}
	return out
}

// ---------------------------------------------------------------- race

type write struct {
	T  int64  `json:"t"`  // ns since the start of the run, taken AFTER the write returned
	T0 int64  `json:"t0"` // … taken BEFORE the write was issued
	E  string `json:"e"`
	S  string `json:"s"`
}

type contact struct {
	Start int64  `json:"start"`
	End   int64  `json:"end"`
	E     string `json:"e"`
}

func runRace(engine, bal string, dur time.Duration, r *vlib.Rng) map[string]any {
	names := []string{"A", "B", "C"}
	backends := make([]*stack.Backend, 3)
	eps := make([]stack.EP, 3)
	for i, n := range names {
		backends[i] = stack.NewBackend(n)
		backends[i].KeepBodies = true
		eps[i] = stack.EP{Name: n, Type: "openai", Priority: 100, Backend: backends[i]}
	}
	defer func() {
		for _, b := range backends {
			b.Close()
		}
	}()
	s, err := stack.Start(stack.Opts{Vary: stack.VaryFor("c03.race", engine, bal), Engine: engine, Balancer: bal, Profile: "auto", EPs: eps})
	if err != nil {
		return map[string]any{"start_err": err.Error()}
	}
	defer s.Stop()
	for _, n := range names {
		s.SetStatus(n, domain.StatusHealthy)
	}
	t0 := time.Now()
	now := func() int64 { return time.Since(t0).Nanoseconds() }
	var mu sync.Mutex
	writes := []write{}
	for _, n := range names {
		writes = append(writes, write{T: 0, T0: 0, E: n, S: "healthy"})
	}
	var stop int32
	var wg sync.WaitGroup
	// one writer per endpoint, so the writes to one endpoint are totally ordered
	for i, n := range names {
		wg.Add(1)
		rr := r.Fork()
		go func(i int, n string) {
			defer wg.Done()
			for atomic.LoadInt32(&stop) == 0 {
				st := vlib.Pick(rr, statuses)
				a := now()
				s.SetStatus(n, domain.EndpointStatus(st))
				b := now()
				mu.Lock()
				writes = append(writes, write{T: b, T0: a, E: n, S: st})
				mu.Unlock()
				time.Sleep(time.Duration(200+rr.Intn(1500)) * time.Microsecond)
			}
		}(i, n)
	}
	type sent struct {
		id         int
		start, end int64
	}
	var sents []sent
	var idc int64
	for w := 0; w < 6; w++ {
		wg.Add(1)
		go func() {
			defer wg.Done()
			for atomic.LoadInt32(&stop) == 0 {
				id := int(atomic.AddInt64(&idc, 1))
				raw := stack.Request("POST", "/olla/proxy/v1/chat/completions", s.Addr, [][2]string{{"Content-Type", "application/json"}}, []byte(fmt.Sprintf(`{"messages":[{"role":"user","content":"#rq-%d#"}]}`, id)), false)
				a := now()
				stack.Do(s.Addr, raw, 5*time.Second)
				b := now()
				mu.Lock()
				sents = append(sents, sent{id, a, b})
				mu.Unlock()
			}
		}()
	}
	time.Sleep(dur)
	atomic.StoreInt32(&stop, 1)
	wg.Wait()
	span := map[int]sent{}
	for _, x := range sents {
		span[x.id] = x
	}
	contacts := []contact{}
	for i, b := range backends {
		for _, x := range b.Taken() {
			body := string(x.Body)
			a := strings.Index(body, "#rq-")
			if a < 0 {
				continue
			}
			var id int
			fmt.Sscanf(body[a:], "#rq-%d#", &id)
			if sp, ok := span[id]; ok {
				contacts = append(contacts, contact{sp.start, sp.end, names[i]})
			}
		}
	}
	sort.Slice(writes, func(i, j int) bool { return writes[i].T0 < writes[j].T0 })
	return map[string]any{"writes": writes, "contacts": contacts, "requests": len(sents)}
}

func main() {
	tier := vlib.Tier()
	r := vlib.NewRng(vlib.Seed())
	c := vlib.OpenCases("cases.jsonl")
	thorough := tier == "thorough"

	if rp := vlib.ReplayPath(); rp != "" {
		var rep struct {
			FailingCase map[string]json.RawMessage `json:"failing_case"`
		}
		b, _ := os.ReadFile(rp)
		json.Unmarshal(b, &rep)
		var kind string
		json.Unmarshal(rep.FailingCase["kind"], &kind)
		switch kind {
		case "table":
			var eps []ep
			json.Unmarshal(rep.FailingCase["eps"], &eps)
			caseTable(c, eps)
		case "history":
			var eps []ep
			var ops []hop
			json.Unmarshal(rep.FailingCase["eps"], &eps)
			json.Unmarshal(rep.FailingCase["ops"], &ops)
			caseHistory(c, eps, ops)
		case "stack":
			var sc stackCase
			json.Unmarshal(rep.FailingCase["scenario"], &sc)
			c.Emit(map[string]any{"kind": "stack", "scenario": sc, "impl": runStack(&sc)})
		case "life":
			var sc lifeCase
			json.Unmarshal(rep.FailingCase["scenario"], &sc)
			c.Emit(map[string]any{"kind": "life", "scenario": sc, "impl": runLife(&sc)})
		default:
			var p struct{ Engine, Balancer string }
			json.Unmarshal(rep.FailingCase["scenario"], &p)
			c.Emit(map[string]any{"kind": "race", "scenario": map[string]any{"engine": p.Engine, "balancer": p.Balancer}, "impl": runRace(p.Engine, p.Balancer, 1500*time.Millisecond, r)})
		}
		c.Close(map[string]any{})
		return
	}

	// table: statuses^n x priority patterns, n <= 4 (exhaustive)
	patterns := map[int][][]int{1: {{100}}, 2: {{100, 100}, {200, 100}, {100, 200}}, 3: {{100, 100, 100}, {300, 200, 100}, {100, 200, 200}, {200, 100, 200}},
		4: {{100, 100, 100, 100}, {400, 300, 200, 100}, {100, 200, 200, 100}, {300, 300, 100, 100}}}
	for n := 1; n <= 4; n++ {
		total := 1
		for i := 0; i < n; i++ {
			total *= len(statuses)
		}
		for v := 0; v < total; v++ {
			for _, pat := range patterns[n] {
				eps := make([]ep, n)
				x := v
				for i := 0; i < n; i++ {
					eps[i] = ep{i, pat[i], statuses[x%len(statuses)]}
					x /= len(statuses)
				}
				caseTable(c, eps)
				c.Count(fmt.Sprintf("table.n%d", n))
			}
		}
	}
	// histories
	nh := 3000
	if thorough {
		nh = 20000
	}
	// the corner history first: a stale snapshot, a scribbled snapshot, a status nobody wrote
	caseHistory(c, []ep{{0, 200, ""}, {1, 100, ""}}, []hop{{Op: "update", E: 0, S: "healthy"}, {Op: "update", E: 1, S: "offline"}, {Op: "snap", K: 0, Src: "all"},
		{Op: "mutate", K: 0, I: 1, S: "healthy"}, {Op: "snap", K: 1, Src: "healthy"}, {Op: "select", K: 1, Bal: "round-robin"}, {Op: "select", K: 1, Bal: "round-robin"},
		{Op: "update", E: 0, S: "unhealthy"}, {Op: "select", K: 1, Bal: "priority"}, {Op: "snap", K: 2, Src: "healthy"}, {Op: "select", K: 2, Bal: "least-connections"}})
	c.Count("history.corner")
	for i := 0; i < nh; i++ {
		n := 1 + r.Intn(4)
		eps := make([]ep, n)
		for j := range eps {
			eps[j] = ep{j, vlib.Pick(r, []int{100, 100, 200, 300}), ""}
		}
		caseHistory(c, eps, genHistory(r, n))
		c.Count(fmt.Sprintf("history.n%d", n))
	}
	// stack histories
	var scs []*stackCase
	scs = append(scs, cornerStacks()...)
	ns := 16
	if thorough {
		ns = 60
	}
	for _, engine := range []string{"sherpa", "olla"} {
		for _, bal := range balancers {
			for i := 0; i < ns; i++ {
				sc := genStack(r, engine, bal, 2+r.Intn(2))
				switch i % 4 {
				case 1:
					sc.Strategy = "discovery-all"
				case 3:
					sc.Strategy = "optimistic-all"
				}
				scs = append(scs, sc)
			}
		}
	}
	out := make([]map[string]any, len(scs))
	scen.ParallelMap(len(scs), 12, func(i int) { out[i] = runStack(scs[i]) })
	for i, sc := range scs {
		c.Count("stack." + sc.Engine + "." + sc.Balancer)
		c.Emit(map[string]any{"kind": "stack", "scenario": sc, "impl": out[i]})
	}
	// long-lived stacks: requests in flight while the status writers (real checks, failures, writes) run
	lives := cornerLives()
	nl, ll := 6, 80
	if thorough {
		nl, ll = 10, 220
	}
	for _, engine := range []string{"sherpa", "olla"} {
		for _, bal := range balancers {
			for i := 0; i < nl; i++ {
				lc := genLife(r, engine, bal, 2+r.Intn(3), ll+r.Intn(ll/2))
				switch i % 4 {
				case 1:
					lc.Strategy = "discovery-all"
				case 3:
					lc.Strategy = "optimistic-all"
				}
				lives = append(lives, lc)
			}
		}
	}
	lout := make([]map[string]any, len(lives))
	scen.ParallelMap(len(lives), 12, func(i int) { lout[i] = runLife(lives[i]) })
	for i, lc := range lives {
		c.Count("life." + lc.Engine + "." + lc.Balancer)
		c.Emit(map[string]any{"kind": "life", "scenario": lc, "impl": lout[i]})
	}
	// concurrent writers + senders
	dur := 700 * time.Millisecond
	if thorough {
		dur = 5 * time.Second
	}
	type rc struct{ engine, bal string }
	var rcs []rc
	for _, engine := range []string{"sherpa", "olla"} {
		for _, bal := range balancers {
			rcs = append(rcs, rc{engine, bal})
		}
	}
	rout := make([]map[string]any, len(rcs))
	rngs := make([]*vlib.Rng, len(rcs))
	for i := range rcs {
		rngs[i] = r.Fork()
	}
	scen.ParallelMap(len(rcs), 3, func(i int) { rout[i] = runRace(rcs[i].engine, rcs[i].bal, dur, rngs[i]) })
	for i, x := range rcs {
		c.Count("race." + x.engine + "." + x.bal)
		c.Emit(map[string]any{"kind": "race", "scenario": map[string]any{"engine": x.engine, "balancer": x.bal}, "impl": rout[i]})
	}
	c.Close(map[string]any{"exhaustive": true,
		"exhaustive_note": "table: all 6^n status assignments x 1/3/4/4 priority patterns for n = 1..4 endpoints on the real repository + three real selectors (exhaustive); op histories, stack histories, long-lived stack histories with requests in flight and concurrent writer/sender runs are sampled"})
}
