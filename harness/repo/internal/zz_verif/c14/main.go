//go:build verif

// c14: Anthropic requests through the unchanged production stack in front of mixes of typed
// endpoints. The endpoint types are every type a configuration may name according to the REAL
// profile loader over the shipped YAML (profile names and routing prefixes: native-support types,
// non-native types, alias spellings of native profiles) plus "auto". One stack per (type mix,
// passthrough on/off); on each stack: stream on/off x {nobody fails, the preferred native endpoint
// refuses, every native endpoint refuses}. Backends record path, sha256(body) and the shape of the
// body they received.
package main

import (
	"strings"
	"bytes"
	"encoding/json"
	"fmt"
	"os"
	"sort"
	"sync"
	"time"

	"github.com/thushan/olla/internal/adapter/registry/profile"
	"github.com/thushan/olla/internal/config"
	"github.com/thushan/olla/internal/core/domain"
	"github.com/thushan/olla/internal/zz_verif/anth"
	"github.com/thushan/olla/internal/zz_verif/scen"
	"github.com/thushan/olla/internal/adapter/proxy/olla"
	"github.com/thushan/olla/internal/zz_verif/stack"
	"github.com/thushan/olla/internal/zz_verif/vlib"
)

// Scenario is the whole input of one case (one request).
type Scenario struct {
	Types   []string `json:"types"`   // endpoint types; index 0 has the highest priority
	Enabled bool     `json:"enabled"` // translators.anthropic.passthrough_enabled
	Stream  bool     `json:"stream"`
	Refuse  []bool   `json:"refuse"`  // endpoint i refuses connections
	// Fault[i]: endpoint i accepts the connection and closes it without answering ("close0"); BreakerOpen[i]: the olla
	// engine's breaker for endpoint i is open when the request is sent (read from the engine, a result of the
	// requests before it on the same stack)
	Fault       []string `json:"fault,omitempty"`
	BreakerOpen []bool   `json:"breaker_open,omitempty"`
	Invalid bool     `json:"invalid"` // the request fails Anthropic validation (no messages)
	Pad     int      `json:"pad,omitempty"` // the message carries this many extra bytes of text (large prompts: above the 1 MiB marks of the inspector and the retry handler)
	Engine  string   `json:"engine"`
	Salt    string   `json:"salt"`
	// steps of a fleet history (history.go): ONE stack lives through all steps of a history. Down[i]: endpoint i is not
	// healthy when the request is sent (its status in the repository is DownAs[i]); Has[i]: endpoint i serves the
	// step's model (Model; "" = anth.Model). The candidates of the request are the endpoints that are up and serve the model.
	Hist   int      `json:"hist,omitempty"`
	Step   int      `json:"step,omitempty"`
	Model  string   `json:"model,omitempty"`
	Down   []bool   `json:"down,omitempty"`
	DownAs []string `json:"down_as,omitempty"`
	Has    []bool   `json:"has,omitempty"`
	Noise  bool     `json:"noise,omitempty"` // a chat completions request on the proxy route went through the same stack just before
	Move   string   `json:"move,omitempty"`  // how the fleet got from the previous step's state to this one (generator's label)
	// size cases (sizes.go): the request body is EXACTLY BodySize bytes long (Fill / Shift: what the padding is made of and
	// where its multi-byte characters sit), on a stack whose translators.anthropic.max_message_size is MaxMsg (0 = not
	// configured: the default of 10 MiB applies). A body longer than the limit is refused by the handler (413) and
	// forwarded nowhere; every other one is judged like any request.
	SizeCase bool   `json:"size_case,omitempty"`
	BodySize int    `json:"body_size,omitempty"`
	MaxMsg   int64  `json:"max_msg,omitempty"`
	Fill     string `json:"fill,omitempty"`
	Shift    int    `json:"shift,omitempty"`
	Anchor   string `json:"anchor,omitempty"` // generator's label: which limit / power of two the size sits next to
}

type Delivery struct {
	EP        int    `json:"ep"`
	Path      string `json:"path"`
	Shape     string `json:"shape"`
	Identical bool   `json:"identical"` // sha256(body received) == sha256(body the client sent)
	SHA       string `json:"sha"`
	Len       int    `json:"len"`
}

type Obs struct {
	StartErr     string     `json:"start_err,omitempty"`
	Unsettled    string     `json:"unsettled,omitempty"` // the step could not be observed reliably (overloaded machine): not judged
	Err          string     `json:"err"`
	Status       int        `json:"status"`
	CT           string     `json:"content_type"`
	Mode         string     `json:"mode"`      // X-Olla-Mode
	Native       bool       `json:"native_answer"` // the client got the native (passthrough) answer of a backend
	ClientSHA    string     `json:"client_sha"`
	Deliveries   []Delivery `json:"deliveries"`
	StatPass     int64      `json:"stat_passthrough"` // delta of /internal/stats/translators summary
	StatTrans    int64      `json:"stat_translation"`
	Ms           int64      `json:"ms"`
}

// plan = one stack and the requests sent to it
type plan struct {
	types   []string
	enabled bool
	engine  string
	reqs    []*Scenario
	sized   bool  // a plan of size cases: max_message_size is maxMsg
	maxMsg  int64
}

func transStats(s *stack.Stack) (int64, int64) {
	r := stack.Do(s.Addr, stack.Request("GET", "/internal/stats/translators", s.Addr, nil, nil, false), 2*time.Second)
	var m struct {
		Summary struct {
			P int64 `json:"total_passthrough"`
			T int64 `json:"total_translations"`
		} `json:"summary"`
	}
	json.Unmarshal(r.Body, &m)
	return m.Summary.P, m.Summary.T
}

func runPlan(p *plan) []*Obs {
	out := make([]*Obs, len(p.reqs))
	fail := func(msg string) []*Obs {
		for i := range out {
			out[i] = &Obs{StartErr: msg}
		}
		return out
	}
	var bes []*stack.Backend
	var eps []stack.EP
	for i, t := range p.types {
		b := stack.NewBackend(string(rune('A' + i)))
		b.KeepBodies = true // large messages are classified by shape like any other
		name := b.Name
		b.SetScript(func(_ int, sn *stack.Seen) stack.Behaviour { return anth.OKAnswer(name, sn) })
		bes = append(bes, b)
		eps = append(eps, stack.EP{Name: b.Name, Type: t, Priority: 300 - 100*i, Backend: b})
	}
	defer func() {
		for _, b := range bes {
			b.Close()
		}
	}()
	// every C14 deployment is configured through the real file loader; half of them leave max_message_size at 0
	// ("use the default"), a valid spelling of the same configuration
	s, err := stack.Start(stack.Opts{Vary: stack.VaryFor("c14", p.types, p.enabled, p.engine, len(p.reqs)), Engine: p.engine, Balancer: "priority", EPs: eps, ModelDiscovery: false, Load: true, Mutate: func(cfg *config.Config) {
		cfg.Translators.Anthropic.Enabled = true
		cfg.Translators.Anthropic.PassthroughEnabled = p.enabled
		if p.sized {
			cfg.Translators.Anthropic.MaxMessageSize = p.maxMsg
		} else if (len(p.types)+len(p.reqs))%2 == 0 {
			cfg.Translators.Anthropic.MaxMessageSize = 0
		}
	}})
	if err != nil {
		return fail(err.Error())
	}
	defer s.Stop()
	for _, b := range bes {
		if err := anth.Register(s, b, []string{anth.Model}); err != nil {
			return fail("register models: " + err.Error())
		}
	}
	deadline := time.Now().Add(4 * time.Second)
	for !anth.Routable(s, bes, anth.Model) {
		if time.Now().After(deadline) {
			return fail("model catalogue did not settle")
		}
		time.Sleep(5 * time.Millisecond)
	}
	for ri, sc := range p.reqs {
		// restore: everybody listens, is healthy, and has nothing recorded
		for i, b := range bes {
			b.Listen()
			s.SetStatus(b.Name, domain.StatusHealthy)
			b.Taken()
			if sc.Refuse[i] {
				b.Refuse()
			}
			name := b.Name
			if i < len(sc.Fault) && sc.Fault[i] == "close0" {
				b.SetScript(func(int, *stack.Seen) stack.Behaviour { return stack.Behaviour{Kind: "close0"} })
			} else {
				b.SetScript(func(_ int, sn *stack.Seen) stack.Behaviour { return anth.OKAnswer(name, sn) })
			}
		}
		if len(sc.Fault) > 0 || sc.SizeCase { // (a stack of size cases sees many refusals of its preferred endpoint)
			sc.BreakerOpen = make([]bool, len(bes))
			if svc, ok := s.Proxy.(*olla.Service); ok {
				for i, b := range bes {
					sc.BreakerOpen[i] = svc.GetCircuitBreaker(b.Name).IsOpen()
				}
			}
		}
		if sc.SizeCase {
			out[ri] = sizedRequest(s, bes, sc)
			continue
		}
		o := oneRequest(s, bes, sc, anth.Model, 3*time.Second)
		out[ri] = o
	}
	return out
}

// oneRequest sends the scenario's Anthropic request to the stack and collects what the client and every backend saw of
// it (only this request's traffic: the deliveries carry its token) and the translator statistics it moved.
func oneRequest(s *stack.Stack, bes []*stack.Backend, sc *Scenario, model string, timeout time.Duration) *Obs {
	body := anth.AnthropicBody(model, sc.Stream, sc.Salt+strings.Repeat(" lorem ipsum", sc.Pad/12))
	if sc.Invalid {
		body = []byte(fmt.Sprintf(`{"model":%q,"max_tokens":64,"stream":%v,"messages":[]}`, model, sc.Stream))
	}
	if sc.SizeCase {
		body = sizedBody(model, sc)
	}
	p0, t0 := transStats(s)
	raw := stack.Request("POST", "/olla/anthropic/v1/messages", s.Addr, [][2]string{{"Content-Type", "application/json"}, {"anthropic-version", "2023-06-01"}, {"X-Verif-Token", sc.Salt}}, body, false)
	r := stack.Do(s.Addr, raw, timeout)
	o := &Obs{Err: r.Err, Status: r.Status, CT: anth.Header1(r, "Content-Type"), Mode: anth.Header1(r, "X-Olla-Mode"), Ms: r.Ms, ClientSHA: anth.SHA(body)}
	o.Native = len(r.Body) > 0 && (contains(r.Body, "native hello from") || contains(r.Body, "msg_native"))
	time.Sleep(10 * time.Millisecond)
	if sc.SizeCase {
		// a backend records a request when it has read the whole body (or the connection ended): wait until nobody is
		// still reading or answering and the number of recorded requests stands still
		stack.Quiesce(func() string {
			n, busy := 0, int64(0)
			for _, b := range bes {
				n += b.Count()
				busy += b.Busy() + b.OpenConns()
			}
			return fmt.Sprint(n, busy)
		})
	}
	var all []*stack.Seen
	idx := map[string]int{}
	for i, b := range bes {
		idx[b.Name] = i
		for _, x := range b.Taken() {
			if v := x.Header["X-Verif-Token"]; len(v) > 0 && v[0] == sc.Salt { // only this request's traffic
				all = append(all, x)
			}
		}
	}
	sort.Slice(all, func(i, j int) bool { return all[i].Seq < all[j].Seq })
	for _, x := range all {
		o.Deliveries = append(o.Deliveries, Delivery{EP: idx[x.Backend], Path: x.Path, Shape: anth.Shape(x.Body), Identical: x.BodySHA == o.ClientSHA, SHA: x.BodySHA[:12], Len: x.BodyLen})
	}
	stack.Quiesce(func() string { a, b := transStats(s); return fmt.Sprint(a, b) })
	p1, t1 := transStats(s)
	o.StatPass, o.StatTrans = p1-p0, t1-t0
	return o
}

// trailLine: one step of a history in a line.
func trailLine(sc *Scenario, o *Obs) string {
	var cands, refuse, got []int
	for i := range sc.Types {
		if !sc.Down[i] && sc.Has[i] {
			cands = append(cands, i)
		}
		if sc.Refuse[i] {
			refuse = append(refuse, i)
		}
	}
	if o != nil {
		for _, d := range o.Deliveries {
			got = append(got, d.EP)
		}
	}
	mode, status := "", 0
	if o != nil {
		mode, status = o.Mode, o.Status
	}
	return fmt.Sprintf("step %d (%s): model %s stream=%v invalid=%v pad=%d, candidates %v, refusing %v -> status %d X-Olla-Mode %q, delivered to %v", sc.Step, sc.Move, sc.Model, sc.Stream, sc.Invalid, sc.Pad, cands, refuse, status, mode, got)
}

func contains(b []byte, sub string) bool { return bytes.Contains(b, []byte(sub)) }

func main() {
	tier := vlib.Tier()
	r := vlib.NewRng(vlib.Seed())
	c := vlib.OpenCases("cases.jsonl")
	fac, err := profile.NewFactoryWithDefaults()
	if err != nil {
		fmt.Fprintln(os.Stderr, "c14: profile factory:", err)
		os.Exit(3)
	}
	// every endpoint type a configuration may name
	set := map[string]bool{"auto": true}
	for n, p := range fac.GetLoader().GetAllProfiles() {
		set[n] = true
		if cfg := p.GetConfig(); cfg != nil {
			for _, pf := range cfg.Routing.Prefixes {
				set[pf] = true
			}
		}
	}
	var types []string
	for _, t := range vlib.SortedKeys(set) {
		if fac.ValidateProfileType(t) {
			types = append(types, t)
		}
	}
	rawNative := func(t string) bool { sp := fac.GetAnthropicSupport(t); return sp != nil && sp.Enabled }

	var plans []*plan
	mkReqs := func(ts []string, enabled bool, engine string, withInvalid bool) []*Scenario {
		var reqs []*Scenario
		firstNative := -1
		anyNative := false
		for i, t := range ts {
			if rawNative(t) {
				anyNative = true
				if firstNative < 0 {
					firstNative = i
				}
			}
		}
		fails := [][]bool{make([]bool, len(ts))}
		pref := make([]bool, len(ts)) // the preferred native endpoint refuses (the preferred endpoint if none is native)
		if firstNative >= 0 {
			pref[firstNative] = true
		} else {
			pref[0] = true
		}
		fails = append(fails, pref)
		if anyNative && len(ts) > 1 {
			alln := make([]bool, len(ts)) // every native endpoint refuses
			for i, t := range ts {
				alln[i] = rawNative(t)
			}
			if fmt.Sprint(alln) != fmt.Sprint(pref) {
				fails = append(fails, alln)
			}
		}
		for _, stream := range []bool{false, true} {
			for _, f := range fails {
				reqs = append(reqs, &Scenario{Types: ts, Enabled: enabled, Stream: stream, Refuse: f, Engine: engine})
			}
		}
		// a large message (1.5 MiB of prompt) whose preferred endpoint refuses: the failover carries the same large request
		if len(ts) > 1 {
			reqs = append(reqs, &Scenario{Types: ts, Enabled: enabled, Stream: false, Refuse: pref, Engine: engine, Pad: 3 << 19},
				&Scenario{Types: ts, Enabled: enabled, Stream: true, Refuse: make([]bool, len(ts)), Engine: engine, Pad: 3 << 19})
		}
		if withInvalid {
			reqs = append(reqs, &Scenario{Types: ts, Enabled: enabled, Stream: false, Refuse: make([]bool, len(ts)), Invalid: true, Engine: engine})
		}
		// a history: every native endpoint closes the connection without answering, request after request (the
		// engine's breaker for it opens on the way), then one more request once the endpoints behave again.
		// Last in the plan: an open breaker stays open for the rest of the stack's life.
		if anyNative && len(ts) > 1 && enabled {
			fl := make([]string, len(ts))
			for i, t := range ts {
				if rawNative(t) {
					fl[i] = "close0"
				}
			}
			for k := 0; k < 7; k++ {
				reqs = append(reqs, &Scenario{Types: ts, Enabled: enabled, Stream: k%2 == 1, Refuse: make([]bool, len(ts)), Fault: fl, Engine: engine})
			}
			reqs = append(reqs, &Scenario{Types: ts, Enabled: enabled, Stream: false, Refuse: make([]bool, len(ts)), Fault: make([]string, len(ts)), Engine: engine})
		}
		for _, q := range reqs {
			q.Salt = fmt.Sprintf("s%d", r.Intn(1<<30))
		}
		return reqs
	}
	addPlan := func(ts []string, withInvalid bool) {
		for _, enabled := range []bool{true, false} {
			engine := vlib.Pick(r, []string{"sherpa", "olla"})
			plans = append(plans, &plan{types: ts, enabled: enabled, engine: engine, reqs: mkReqs(ts, enabled, engine, withInvalid)})
		}
	}
	if rp := vlib.ReplayPath(); rp != "" {
		var rep struct {
			FailingCase struct {
				Scenario Scenario `json:"scenario"`
			} `json:"failing_case"`
		}
		b, _ := os.ReadFile(rp)
		json.Unmarshal(b, &rep)
		sc := rep.FailingCase.Scenario
		plans = append(plans, &plan{types: sc.Types, enabled: sc.Enabled, engine: sc.Engine, reqs: []*Scenario{&sc}, sized: sc.SizeCase, maxMsg: sc.MaxMsg})
	} else {
		for _, a := range types { // all singles
			addPlan([]string{a}, true)
		}
		for _, a := range types { // all ordered pairs
			for _, b := range types {
				addPlan([]string{a, b}, false)
			}
		}
		nTriples := 40
		if tier == "thorough" {
			nTriples = 1200
		}
		for i := 0; i < nTriples; i++ { // triples sampled
			addPlan([]string{vlib.Pick(r, types), vlib.Pick(r, types), vlib.Pick(r, types)}, false)
		}
	}
	// fleet histories (history.go): one long-lived stack each, drawn from the same PRNG (after the plans, whose draws
	// stay what they were)
	var hists []*history
	if vlib.ReplayPath() == "" {
		hr := r.Fork()
		nHist, nSteps := 40, 24
		if tier == "thorough" {
			nHist, nSteps = 400, 60
		}
		for i := 0; i < nHist; i++ {
			hists = append(hists, genHistory(hr, i+1, types, rawNative, nSteps, tier == "thorough"))
		}
	}
	// size cases (sizes.go): bodies at and around the configured limit and the powers of two below it; drawn from a fork
	// taken after the plans' and the histories' draws (which stay what they were)
	if vlib.ReplayPath() == "" {
		sr := r.Fork()
		plans = append(plans, genSizePlans(sr, types, rawNative, tier == "thorough")...)
	}
	hresults := make([][]*Obs, len(hists))
	results := make([][]*Obs, len(plans))
	var mu sync.Mutex
	scen.ParallelMap(len(plans)+len(hists), 16, func(i int) {
		if i >= len(plans) {
			hi := i - len(plans)
			defer func() {
				if p := recover(); p != nil {
					res := make([]*Obs, len(hists[hi].steps))
					for k := range res {
						res[k] = &Obs{StartErr: fmt.Sprint("panic: ", p)}
					}
					mu.Lock()
					hresults[hi] = res
					mu.Unlock()
				}
			}()
			res := runHistory(hists[hi])
			mu.Lock()
			hresults[hi] = res
			mu.Unlock()
			return
		}
		defer func() {
			if p := recover(); p != nil {
				res := make([]*Obs, len(plans[i].reqs))
				for k := range res {
					res[k] = &Obs{StartErr: fmt.Sprint("panic: ", p)}
				}
				mu.Lock()
				results[i] = res
				mu.Unlock()
			}
		}()
		var res []*Obs
		for try := 0; try < 3; try++ { // a stack that did not come up is environment noise: retry
			res = runPlan(plans[i])
			if len(res) == 0 || res[0].StartErr == "" {
				break
			}
		}
		mu.Lock()
		results[i] = res
		mu.Unlock()
	})
	for i, p := range plans {
		for k, sc := range p.reqs {
			cls := ""
			for _, t := range sc.Types {
				switch {
				case rawNative(t):
					cls += "N"
				case rawNative(fac.NormalizeProviderName(t)):
					cls += "a" // alias spelling of a native profile
				default:
					cls += "o"
				}
			}
			if sc.SizeCase {
				c.Count(fmt.Sprintf("size %s fill=%s", sc.Anchor, sc.Fill))
			}
			c.Count(fmt.Sprintf("mix=%s enabled=%v", cls, sc.Enabled))
			c.Emit(map[string]any{"kind": "c14", "scenario": sc, "impl": results[i][k]})
		}
	}
	for i, h := range hists {
		var trail []string // what the stack had been through before the step (the last 12 steps), for the reader of a replay
		for k, sc := range h.steps {
			c.Count("history move=" + sc.Move)
			from := 0
			if len(trail) > 12 {
				from = len(trail) - 12
			}
			c.Emit(map[string]any{"kind": "c14h", "scenario": sc, "impl": hresults[i][k], "before": append([]string{}, trail[from:]...)})
			trail = append(trail, trailLine(sc, hresults[i][k]))
		}
	}
	c.Close(map[string]any{"exhaustive": true, "histories": len(hists), "endpoint_types": types,
		"exhaustive_note": fmt.Sprintf("all %d endpoint types the real loader accepts (profile names, routing prefixes, auto): every single and every ordered pair x passthrough on/off x stream on/off x {nobody refuses, preferred native refuses, all native refuse}; triples sampled (%d mixes); engine alternates", len(types), map[bool]int{true: 1200, false: 40}[tier == "thorough"])})
}
