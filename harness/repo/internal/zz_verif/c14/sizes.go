//go:build verif

// Size cases: the property's "byte-identical" and "translated" clauses speak of every valid Anthropic request, whatever
// its length. The lengths that matter are the ones next to a limit: the configured translators.anthropic.max_message_size
// (itself varied: not configured = 10 MiB, round and non-round values, one byte above a power of two, the 100 MiB the
// loader still accepts), every power of two between 4 KiB and 16 MiB (buffer sizes and marks of the code the body passes
// through: 4 KiB buffer pool, 8 KiB / 64 KiB stream buffers, the 1 MiB marks of the inspector, ...), each with its two
// neighbours, the smallest valid body, and non-round lengths in between. A request body is built to be EXACTLY that
// long; its padding is ASCII or made of 2-, 3- or 4-byte characters shifted so that over the draws a character straddles
// a boundary at every offset. Each request is one ordinary case (kind "c14"): the backends record path, length and
// sha256 of what they got, the judgement is Olla.Spec.C14.holds. A body one byte (or a few KiB) over the limit is
// refused by the handler and must reach nobody.
package main

import (
	"fmt"
	"strings"
	"time"

	"github.com/thushan/olla/internal/zz_verif/anth"
	"github.com/thushan/olla/internal/zz_verif/stack"
	"github.com/thushan/olla/internal/zz_verif/vlib"
)

const defaultMaxMsg = 10 << 20 // config.DefaultConfig / anthropic.NewTranslator: max_message_size when not configured

// bigSem: at most two large bodies are in flight at a time (each one is held several times over: the client's bytes,
// the handler's buffer, the retry handler's copy, the backend's copy)
var bigSem = make(chan struct{}, 2)

var fills = map[string]string{"ascii": " lorem ipsum", "u2": "é", "u3": "漢", "u4": "😀", "mix": "aé漢😀"}

// sizedBody: a valid Anthropic request of exactly sc.BodySize bytes (the generator never asks for less than the
// smallest one).
func sizedBody(model string, sc *Scenario) []byte {
	base := anth.AnthropicBody(model, sc.Stream, sc.Salt)
	need := sc.BodySize - len(base)
	if need <= 0 {
		return base
	}
	unit := fills[sc.Fill]
	if unit == "" {
		unit = fills["ascii"]
	}
	var sb strings.Builder
	sb.Grow(need)
	shift := sc.Shift
	if shift > need {
		shift = need
	}
	sb.WriteString(strings.Repeat("x", shift))
	sb.WriteString(strings.Repeat(unit, (need-shift)/len(unit)))
	sb.WriteString(strings.Repeat("y", need-sb.Len()))
	return anth.AnthropicBody(model, sc.Stream, sc.Salt+sb.String())
}

func effLimit(maxMsg int64) int {
	if maxMsg <= 0 {
		return defaultMaxMsg
	}
	return int(maxMsg)
}

// sizedRequest sends one size case. Large bodies go two at a time and get a long deadline; a request the client could
// not even finish (write error, no answer within the deadline) is not judged.
func sizedRequest(s *stack.Stack, bes []*stack.Backend, sc *Scenario) *Obs {
	timeout := 20 * time.Second
	if sc.BodySize >= 1<<21 {
		bigSem <- struct{}{}
		defer func() { <-bigSem }()
		timeout = 120 * time.Second
	}
	o := oneRequest(s, bes, sc, anth.Model, timeout)
	if o.Err == "timeout" || o.Err == "write" || o.Err == "dial" {
		o.Unsettled = fmt.Sprintf("the client's request of %d bytes ended with '%s' after %d ms", sc.BodySize, o.Err, o.Ms)
	}
	return o
}

type sizeDraw struct {
	n      int
	anchor string
}

// genSizePlans draws the stacks of size cases.
func genSizePlans(r *vlib.Rng, types []string, native func(string) bool, thorough bool) []*plan {
	var nat, non []string
	for _, t := range types {
		if native(t) {
			nat = append(nat, t)
		} else {
			non = append(non, t)
		}
	}
	if len(nat) == 0 || len(non) == 0 {
		return nil
	}
	minBody := len(anth.AnthropicBody(anth.Model, false, "s1073741824")) + 1
	// the largest body sent: the quick tier stops at 16 MiB and a bit, the thorough tier at 32 MiB and a bit
	capN := 16<<20 + 64<<10
	if thorough {
		capN = 32<<20 + 64<<10
	}
	bigLimits := []int64{16 << 20, 16<<20 + 1, 12_345_678, 8<<20 + 1, 8 << 20, 9 << 20, 50 << 20, 100 << 20, 10<<20 + 1, 10<<20 - 1}
	smallLimits := []int64{4096, 4097, 8192, 8191, 65536, 65537, 131072, 1 << 20, 1<<20 + 1, 1_500_000, 1 << 22, 1<<22 - 1, 5_000_000, 1000}
	var limits []int64
	if thorough {
		limits = append(limits, 0, 10<<20)
		limits = append(limits, bigLimits...)
		limits = append(limits, smallLimits...)
		for i := 0; i < 6; i++ { // non-round limits anywhere
			limits = append(limits, int64(minBody+r.Intn(20<<20)))
		}
	} else {
		limits = []int64{vlib.Pick(r, []int64{0, 10 << 20}), vlib.Pick(r, bigLimits), vlib.Pick(r, smallLimits), vlib.Pick(r, smallLimits), int64(minBody + r.Intn(3<<20))}
	}
	var plans []*plan
	for pi, lim := range limits {
		// the first two stacks of a run (default limit, a large limit) serve passthrough for sure, the third translates for sure; the others draw
		var ts []string
		enabled := true
		switch {
		case pi == 2: // a stack that translates for sure: nobody is native, or passthrough is switched off
			if r.Bool() {
				ts = vlib.Pick(r, [][]string{{vlib.Pick(r, non)}, {vlib.Pick(r, non), vlib.Pick(r, non)}})
			} else {
				ts = vlib.Pick(r, [][]string{{vlib.Pick(r, nat)}, {vlib.Pick(r, nat), vlib.Pick(r, non)}})
				enabled = false
			}
		case pi < 2 || r.Chance(1, 2):
			ts = vlib.Pick(r, [][]string{{vlib.Pick(r, nat)}, {vlib.Pick(r, nat), vlib.Pick(r, non)}, {vlib.Pick(r, non), vlib.Pick(r, nat)}, {vlib.Pick(r, nat), vlib.Pick(r, nat)}, {vlib.Pick(r, nat), vlib.Pick(r, non), vlib.Pick(r, nat)}})
		default:
			n := 1 + r.Intn(3)
			for i := 0; i < n; i++ {
				ts = append(ts, vlib.Pick(r, types))
			}
			enabled = !r.Chance(1, 4)
		}
		engine := vlib.Pick(r, []string{"sherpa", "olla"})
		L := effLimit(lim)
		var draws []sizeDraw
		add := func(n int, anchor string) {
			if n < minBody {
				n = minBody
			}
			if n > capN || n > L+(64<<10) {
				return
			}
			for _, d := range draws {
				if d.n == n {
					return
				}
			}
			draws = append(draws, sizeDraw{n, anchor})
		}
		// the limit itself: exactly at it (the largest valid request), one below, one above (refused), and a little more above
		add(L, "limit")
		add(L+1, "limit+1")
		if thorough || r.Chance(1, 2) {
			add(L-1, "limit-1")
		}
		if thorough || r.Chance(1, 3) {
			add(L+2+r.Intn(60<<10), "limit+k")
		}
		// powers of two up to the limit: the largest one with both neighbours; of the others all (thorough) or three drawn
		var pows []int
		for p := 4096; p <= 32<<20; p <<= 1 {
			if p-1 <= L && p-1 <= capN && p+1 >= minBody {
				pows = append(pows, p)
			}
		}
		nb := func(p int, which int) {
			switch which {
			case 0:
				add(p-1, fmt.Sprintf("2^%d-1", log2(p)))
			case 1:
				add(p, fmt.Sprintf("2^%d", log2(p)))
			default:
				add(p+1, fmt.Sprintf("2^%d+1", log2(p)))
			}
		}
		if len(pows) > 0 {
			top := pows[len(pows)-1]
			for w := 0; w < 3; w++ {
				nb(top, w)
			}
			rest := pows[:len(pows)-1]
			if thorough {
				for _, p := range rest {
					for w := 0; w < 3; w++ {
						nb(p, w)
					}
				}
			} else {
				for i := 0; i < 3 && len(rest) > 0; i++ {
					nb(vlib.Pick(r, rest), r.Intn(3))
				}
				if len(rest) > 0 && r.Chance(1, 2) { // the one just below the top as well
					nb(rest[len(rest)-1], r.Intn(3))
				}
			}
		}
		// the smallest request, and lengths that are not round in any base
		add(minBody, "smallest")
		nOdd := 2
		if thorough {
			nOdd = 6
		}
		for i := 0; i < nOdd; i++ {
			hi := L
			if hi > capN {
				hi = capN
			}
			if hi > minBody {
				add(minBody+r.Intn(hi-minBody), "between")
			}
		}
		// ten times / a hundred times the typical request of the other generators (a few hundred KiB)
		add(3_000_000, "10x")
		if thorough {
			add(30_000_000, "100x")
		}
		firstNative := -1
		for i, t := range ts {
			if native(t) && firstNative < 0 {
				firstNative = i
			}
		}
		p := &plan{types: ts, enabled: enabled, engine: engine, sized: true, maxMsg: lim}
		// never more than three refusals of an endpoint without a served request in between: the olla engine's breaker
		// (opens at five failures in a row, half-opens by the clock) stays out of the picture
		inRow := 0
		for _, d := range draws {
			refuse := make([]bool, len(ts))
			wants := len(ts) > 1 && r.Chance(1, 3)
			if d.n > L {
				wants = false // refused by the handler: nobody is contacted, nothing is reset
			} else if wants && inRow >= 3 {
				wants = false
			}
			if d.n <= L {
				if wants {
					inRow++
				} else {
					inRow = 0
				}
			}
			if wants { // the preferred (native) endpoint refuses: the failover carries the same request
				if firstNative >= 0 {
					refuse[firstNative] = true
				} else {
					refuse[0] = true
				}
			}
			fill := vlib.Pick(r, []string{"ascii", "u2", "u3", "u4", "mix"})
			p.reqs = append(p.reqs, &Scenario{Types: ts, Enabled: enabled, Stream: r.Bool(), Refuse: refuse, Engine: engine,
				SizeCase: true, BodySize: d.n, MaxMsg: lim, Fill: fill, Shift: r.Intn(len(fills[fill]) + 1), Anchor: d.anchor,
				Salt: fmt.Sprintf("s%d", r.Intn(1<<30))})
		}
		plans = append(plans, p)
	}
	return plans
}

func log2(p int) int {
	n := 0
	for p > 1 {
		p >>= 1
		n++
	}
	return n
}
