//go:build verif

// Fleet histories: ONE production stack (one Application, one translator, one profile factory, one proxy engine, one
// balancer, one registry) is taken through a sequence of DIFFERENT situations, one Anthropic request per situation:
// between two requests endpoints of native and of non-native types go down and come back (sets of the same size with
// other members, lists of 0 / 1 candidates in between, everybody up, everybody down), the model asked for changes (the
// models are served by different subsets of the fleet), the request changes (stream, size, an invalid one), the
// preferred candidate refuses connections (failover inside the chosen list), and a chat completions request of the
// proxy route passes through the same stack in between. Every step is emitted as a case of its own (kind "c14h") and is
// judged by the same predicate as the one-request cases (Olla.Spec.C14.holds): whatever the instance has served before,
// THIS request's Anthropic body may only reach endpoints whose profile declares native support, byte-identical, on
// /v1/messages, with X-Olla-Mode telling the truth. The model is the stateless decision on the step's own candidates
// (the endpoints that are up and serve the model) — a step that differs from it remembers something it must not.
package main

import (
	"fmt"
	"time"

	"github.com/thushan/olla/internal/adapter/proxy/olla"
	"github.com/thushan/olla/internal/config"
	"github.com/thushan/olla/internal/core/domain"
	"github.com/thushan/olla/internal/zz_verif/anth"
	"github.com/thushan/olla/internal/zz_verif/stack"
	"github.com/thushan/olla/internal/zz_verif/vlib"
)

var histModels = []string{anth.Model, "m2"}

type history struct {
	id      int
	types   []string   // index 0 has the highest priority
	serves  [][]bool   // serves[i][k]: endpoint i serves histModels[k]
	enabled bool
	engine  string
	steps   []*Scenario
}

func shuffle[T any](r *vlib.Rng, xs []T) {
	for i := len(xs) - 1; i > 0; i-- {
		j := r.Intn(i + 1)
		xs[i], xs[j] = xs[j], xs[i]
	}
}

func indices(bs []bool, want bool) []int {
	var out []int
	for i, b := range bs {
		if b == want {
			out = append(out, i)
		}
	}
	return out
}

// genHistory draws one history from the check's PRNG. `types` are all endpoint types a configuration may name,
// `native` is the code's own raw lookup (only used to make sure that most fleets have both kinds of endpoint).
func genHistory(r *vlib.Rng, id int, types []string, native func(string) bool, nSteps int, bigPads bool) *history {
	var nat, non []string
	for _, t := range types {
		if native(t) {
			nat = append(nat, t)
		} else {
			non = append(non, t)
		}
	}
	n := 3 + r.Intn(4) // 3..6 endpoints
	h := &history{id: id, enabled: !r.Chance(1, 6), engine: vlib.Pick(r, []string{"sherpa", "olla"})}
	switch {
	case r.Chance(1, 6) || len(nat) == 0 || len(non) == 0: // any mix at all
		for i := 0; i < n; i++ {
			h.types = append(h.types, vlib.Pick(r, types))
		}
	default: // at least two native endpoints (of one type or of two) and at least one without native support
		k := 2 + r.Intn(n-2)
		if k > n-1 {
			k = n - 1
		}
		few := []string{vlib.Pick(r, nat), vlib.Pick(r, nat)} // fleets are mostly built from few kinds of backend
		fewNon := []string{vlib.Pick(r, non), vlib.Pick(r, non)}
		for i := 0; i < n; i++ {
			if i < k {
				h.types = append(h.types, vlib.Pick(r, few))
			} else {
				h.types = append(h.types, vlib.Pick(r, fewNon))
			}
		}
		shuffle(r, h.types) // who is preferred (priority falls with the index) is independent of the kind
	}
	// which endpoint serves which model
	oneModel := r.Chance(1, 3)
	for i := 0; i < n; i++ {
		sv := []bool{oneModel || r.Chance(5, 6), !oneModel && r.Chance(1, 2)}
		if !sv[0] && !sv[1] {
			sv[0] = true
		}
		h.serves = append(h.serves, sv)
	}
	up := make([]bool, n)
	for i := range up {
		up[i] = r.Chance(2, 3)
	}
	refusals := make([]int, n)
	for st := 0; st < nSteps; st++ {
		move := "start"
		if st > 0 {
			ups, downs := indices(up, true), indices(up, false)
			switch x := r.Intn(100); {
			case x < 34 && len(ups) > 0 && len(downs) > 0: // same size, other members
				move = "swap"
				up[vlib.Pick(r, ups)] = false
				up[vlib.Pick(r, downs)] = true
			case x < 62:
				move = "flip"
				i := r.Intn(n)
				up[i] = !up[i]
			case x < 72:
				move = "same"
			case x < 80 && len(ups) > 0: // a list of one
				move = "only-one"
				keep := r.Intn(n)
				for i := range up {
					up[i] = i == keep
				}
			case x < 85:
				move = "all-down"
				for i := range up {
					up[i] = false
				}
			case x < 91:
				move = "all-up"
				for i := range up {
					up[i] = true
				}
			default: // any set of the present size
				move = "regroup"
				k := len(ups)
				perm := make([]int, n)
				for i := range perm {
					perm[i] = i
				}
				shuffle(r, perm)
				for i := range up {
					up[i] = false
				}
				for _, i := range perm[:k] {
					up[i] = true
				}
			}
		}
		mi := 0
		if !oneModel && r.Chance(2, 5) {
			mi = 1
		}
		sc := &Scenario{Types: h.types, Enabled: h.enabled, Engine: h.engine, Hist: id, Step: st, Model: histModels[mi], Move: move,
			Stream: r.Bool(), Invalid: r.Chance(1, 16), Noise: r.Chance(1, 6),
			Refuse: make([]bool, n), Down: make([]bool, n), DownAs: make([]string, n), Has: make([]bool, n),
			Salt: fmt.Sprintf("h%d-%d-%d", id, st, r.Intn(1<<30))}
		var cands []int
		for i := 0; i < n; i++ {
			sc.Down[i] = !up[i]
			if !up[i] {
				sc.DownAs[i] = vlib.Pick(r, []string{string(domain.StatusOffline), string(domain.StatusUnhealthy)})
			}
			sc.Has[i] = h.serves[i][mi]
			if up[i] && sc.Has[i] {
				cands = append(cands, i)
			}
		}
		// failover: the preferred candidate (sometimes the two preferred ones, sometimes every native one) refuses
		// connections. An endpoint refuses at most four times in a history (the olla engine's breaker opens at five
		// failures in a row and then stays open for longer than a history lasts).
		refuse := func(i int) {
			if refusals[i] < 4 {
				refusals[i]++
				sc.Refuse[i] = true
			}
		}
		switch x := r.Intn(30); {
		case x < 5 && len(cands) > 0:
			refuse(cands[0])
		case x < 7 && len(cands) > 1:
			refuse(cands[0])
			refuse(cands[1])
		case x < 9:
			for _, i := range cands {
				if native(h.types[i]) {
					refuse(i)
				}
			}
		}
		pads := []int{0, 0, 0, 0, 0, 4 << 10, 70 << 10}
		if bigPads && oneModel {
			// only where every endpoint serves the one model: the body inspector does not read bodies over 1 MiB, so such a
			// request is not routed by model at all (routing is not this property's business; see NOTES-round7-C14.md)
			pads = append(pads, 3<<19)
		}
		sc.Pad = vlib.Pick(r, pads)
		h.steps = append(h.steps, sc)
	}
	return h
}

// runHistory plays the history on one stack and returns one observation per step.
func runHistory(h *history) []*Obs {
	out := make([]*Obs, len(h.steps))
	skip := func(from int, why string) []*Obs {
		for i := from; i < len(out); i++ {
			out[i] = &Obs{Unsettled: why}
		}
		return out
	}
	var bes []*stack.Backend
	var eps []stack.EP
	n := len(h.types)
	for i, t := range h.types {
		b := stack.NewBackend(string(rune('A' + i)))
		b.KeepBodies = true
		name := b.Name
		b.SetScript(func(_ int, sn *stack.Seen) stack.Behaviour { return anth.OKAnswer(name, sn) })
		bes = append(bes, b)
		eps = append(eps, stack.EP{Name: b.Name, Type: t, Priority: 100 * (n - i), Backend: b})
	}
	defer func() {
		for _, b := range bes {
			b.Close()
		}
	}()
	var s *stack.Stack
	var err error
	for try := 0; try < 3 && s == nil; try++ { // a stack that does not come up is environment noise
		s, err = stack.Start(stack.Opts{Vary: stack.VaryFor("c14h", h.id, h.types, h.enabled, h.engine), Engine: h.engine, Balancer: "priority", EPs: eps, ModelDiscovery: false, Load: true, Mutate: func(cfg *config.Config) {
			cfg.Translators.Anthropic.Enabled = true
			cfg.Translators.Anthropic.PassthroughEnabled = h.enabled
		}})
		if err != nil {
			s = nil
		}
	}
	if s == nil {
		return skip(0, "the stack did not start: "+err.Error())
	}
	defer s.Stop()
	for i, b := range bes {
		var ms []string
		for k, m := range histModels {
			if h.serves[i][k] {
				ms = append(ms, m)
			}
		}
		if err := anth.Register(s, b, ms); err != nil {
			return skip(0, "register models: "+err.Error())
		}
	}
	deadline := time.Now().Add(30 * time.Second)
	for k, m := range histModels {
		var serving []*stack.Backend
		for i, b := range bes {
			if h.serves[i][k] {
				serving = append(serving, b)
			}
		}
		for len(serving) > 0 && !anth.Routable(s, serving, m) {
			if time.Now().After(deadline) {
				return skip(0, "the model catalogue did not settle within 30 s")
			}
			time.Sleep(5 * time.Millisecond)
		}
	}
	var firstOpen time.Time
	for si, sc := range h.steps {
		// the fleet as this step finds it: who is up (a health result written into the repository, as the checker
		// would), everybody listening again and answering well, nothing recorded
		for i, b := range bes {
			b.Listen()
			name := b.Name
			b.SetScript(func(_ int, sn *stack.Seen) stack.Behaviour { return anth.OKAnswer(name, sn) })
			st := domain.StatusHealthy
			if sc.Down[i] {
				st = domain.EndpointStatus(sc.DownAs[i])
			}
			s.SetStatus(b.Name, st)
		}
		for i, b := range bes { // the repository must say what the step says before the request goes out
			e := s.Endpoint(b.Name)
			if e == nil || (e.Status == domain.StatusHealthy) == sc.Down[i] {
				return skip(si, "an endpoint status written into the repository did not stick")
			}
		}
		if sc.Noise { // another route, another body format, through the same engine and balancer
			raw := stack.Request("POST", "/olla/proxy/v1/chat/completions", s.Addr, [][2]string{{"Content-Type", "application/json"}, {"X-Verif-Token", "noise-" + sc.Salt}}, anth.OpenAIBody(sc.Model, sc.Stream, sc.Salt), false)
			stack.Do(s.Addr, raw, 20*time.Second)
			for i, b := range bes { // a failed attempt of the noise request marks its endpoint unhealthy: write the step's state again
				st := domain.StatusHealthy
				if sc.Down[i] {
					st = domain.EndpointStatus(sc.DownAs[i])
				}
				s.SetStatus(b.Name, st)
			}
		}
		for i, b := range bes {
			b.Taken()
			if sc.Refuse[i] {
				b.Refuse()
			}
		}
		sc.BreakerOpen = make([]bool, n)
		if svc, ok := s.Proxy.(*olla.Service); ok {
			for i, b := range bes {
				sc.BreakerOpen[i] = svc.GetCircuitBreaker(b.Name).IsOpen()
				if sc.BreakerOpen[i] && firstOpen.IsZero() {
					firstOpen = time.Now()
				}
			}
		}
		if !firstOpen.IsZero() && time.Since(firstOpen) > 15*time.Second {
			// an open breaker lets a probe through 30 s after its last failure: from then on which endpoint is tried
			// depends on the clock. The rest of the history is not judged.
			return skip(si, "the history took longer than an open circuit breaker stays open")
		}
		o := oneRequest(s, bes, sc, sc.Model, 30*time.Second)
		if o.Err == "timeout" || o.Err == "dial" || o.Err == "write" {
			o.Unsettled = "the client could not complete the request (" + o.Err + ")"
		}
		out[si] = o
	}
	return out
}
