//go:build verif

// gen_retry renders Olla/Gen/Retry.lean: how the compiled classification functions
// (common.MakeUserFriendlyError followed by core.IsConnectionError — exactly what
// ExecuteWithRetry looks at) classify the REAL errors net/http produces for each
// injected backend fault, before and after response headers.
package main

import (
	"bytes"
	"io"
	"net/http"
	"time"

	"github.com/thushan/olla/internal/adapter/proxy/common"
	"github.com/thushan/olla/internal/adapter/proxy/core"
	"github.com/thushan/olla/internal/adapter/proxy/olla"
	"github.com/thushan/olla/internal/adapter/stats"
	"github.com/thushan/olla/internal/zz_verif/scen"
	"github.com/thushan/olla/internal/zz_verif/stack"
	"github.com/thushan/olla/internal/zz_verif/vlib"
)

func classify(kind string, chunked bool) (phase string, retryable bool, sawStatus int) {
	b := stack.NewBackend("G")
	defer b.Close()
	if kind == "refuse" {
		b.Refuse()
	} else {
		b.SetBehaviour(scen.FaultBeh("G", kind, 300, 100, chunked, "application/json"))
		if kind == "hdr-reset" || kind == "hdr-close" {
			b.SetBehaviour(scen.FaultBeh("G", kind, 300, 0, chunked, "application/json"))
		}
		if kind == "ok" {
			b.SetBehaviour(scen.OkBeh("G", 200, 300, chunked, "application/json"))
		}
	}
	tr := &http.Transport{DisableKeepAlives: true}
	target := b.URL()
	if kind == "dnsfail" {
		target = "http://" + scen.UnresolvableHost + ":80"
	}
	req, _ := http.NewRequest("POST", target+"/v1/chat/completions", bytes.NewReader([]byte("{}")))
	resp, err := tr.RoundTrip(req)
	if err != nil {
		f := common.MakeUserFriendlyError(err, 10*time.Millisecond, "backend", time.Minute)
		return "pre", core.IsConnectionError(f), 0
	}
	defer resp.Body.Close()
	_, err = io.ReadAll(resp.Body)
	if err != nil {
		f := common.MakeUserFriendlyError(err, 10*time.Millisecond, "streaming", time.Minute)
		return "post", core.IsConnectionError(f), resp.StatusCode
	}
	return "none", false, resp.StatusCode
}

func main() {
	const ns = "Olla.Gen.Retry"
	f := vlib.NewLeanFile(ns, "gen_retry")
	kinds := append(append([]string{"ok"}, scen.PreKinds...), scen.PostKinds...)
	var rows []string
	for _, k := range kinds {
		for _, ch := range []bool{false, true} {
			ph, re, _ := classify(k, ch)
			rows = append(rows, vlib.LeanTuple(vlib.LeanStr(k), vlib.LeanBool(ch), vlib.LeanStr(ph), vlib.LeanBool(re)))
		}
	}
	f.Def("faultTable", "List (String × Bool × String × Bool)", vlib.LeanList(rows),
		"(fault kind, chunked, phase at which net/http reports the error: pre = before any response header / post = while reading the body / none, IsConnectionError(MakeUserFriendlyError(err)))")
	// the sentinel contract of the breaker skip
	skipErr := error(core.ErrCircuitOpen)
	f.Def("circuitOpenIsConnectionError", "Bool", vlib.LeanBool(core.IsConnectionError(skipErr)), "IsConnectionError(ErrCircuitOpen) — must be false: a skip is not a connection failure of the endpoint")
	f.Def("noHealthyIsConnectionError", "Bool", vlib.LeanBool(core.IsConnectionError(common.ErrNoHealthyEndpoints)), "")
	// olla engine breaker threshold, measured on the breaker the engine installs for a new endpoint
	cb := olla.VerifNewEngineBreaker("gen")
	th := 0
	for th < 1000 && !cb.IsOpen() {
		cb.RecordFailure()
		th++
	}
	f.Def("engineBreakerThreshold", "Nat", vlib.LeanNat(uint64(th)), "consecutive RecordFailure calls after which the olla engine's per-endpoint breaker reports IsOpen")
	f.Def("collectorEndpointTTL", "Int", vlib.LeanNat(uint64(stats.EndpointTTL.Nanoseconds())), "stats.EndpointTTL in ns: per-endpoint statistics not refreshed for this long are dropped by the collector's clean-up pass")
	f.Def("collectorCleanupInterval", "Int", vlib.LeanNat(uint64(stats.CleanupInterval.Nanoseconds())), "stats.CleanupInterval in ns: RecordRequest runs the clean-up pass at most this often")
	f.Write(ns)
}
