//go:build verif

// gen_profiles renders Olla/Gen/Profiles.lean: what the REAL profile loader
// (profile.NewFactoryWithDefaults(), run with cwd /repo so ./config/profiles is the shipped
// YAML) knows about every profile — name, routing prefixes, openai_compatible,
// anthropic_support — and what the compiled lookup functions the Anthropic handler uses
// answer for every endpoint type a configuration may name:
//   - Factory.GetAnthropicSupport(rawType)          (what tryPassthrough calls)
//   - the anthropic_support of the loader's profile NormalizeProviderName(rawType)   (the endpoint's own profile)
//   - Factory.ValidateProfileType(rawType)          (is the type accepted in a config at all)
//
// plus the constants of the passthrough / translation split obtained by RUNNING the
// translator (PreparePassthrough / TransformRequest target paths, X-Olla-Mode, mode names)
// and the profile filter the inspector chain derives for the Anthropic route.
package main

import (
	"bytes"
	"context"
	"fmt"
	"net/http/httptest"
	"os"
	"sort"

	"github.com/thushan/olla/internal/adapter/inspector"
	"github.com/thushan/olla/internal/adapter/registry/profile"
	"github.com/thushan/olla/internal/adapter/translator"
	"github.com/thushan/olla/internal/adapter/translator/anthropic"
	"github.com/thushan/olla/internal/app/handlers"
	"github.com/thushan/olla/internal/config"
	"github.com/thushan/olla/internal/core/constants"
	"github.com/thushan/olla/internal/core/domain"
	"github.com/thushan/olla/internal/zz_verif/vlib"
)

func die(f string, a ...any) {
	fmt.Fprintf(os.Stderr, "gen_profiles: "+f+"\n", a...)
	os.Exit(3)
}

func supportTuple(s *domain.AnthropicSupportConfig) string {
	if s == nil {
		return "none"
	}
	lim := append([]string{}, s.Limitations...)
	return "(some " + vlib.LeanTuple(vlib.LeanBool(s.Enabled), vlib.LeanStr(s.MessagesPath), vlib.LeanBool(s.TokenCount),
		vlib.LeanStr(s.MinVersion), vlib.LeanStrList(lim)) + ")"
}

func main() {
	const ns = "Olla.Gen.Profiles"
	f := vlib.NewLeanFile(ns, "gen_profiles")
	fac, err := profile.NewFactoryWithDefaults()
	if err != nil {
		die("profile factory: %v", err)
	}
	all := fac.GetLoader().GetAllProfiles()
	names := vlib.SortedKeys(all)

	// ---- per profile, as the loader holds it
	var rows []string
	typeSet := map[string]bool{}
	for _, n := range names {
		cfg := all[n].GetConfig()
		if cfg == nil {
			die("profile %s has no config", n)
		}
		pf := append([]string{}, cfg.Routing.Prefixes...)
		rows = append(rows, vlib.LeanTuple(vlib.LeanStr(n), vlib.LeanStrList(pf), vlib.LeanBool(cfg.API.OpenAICompatible), supportTuple(cfg.API.AnthropicSupport)))
		typeSet[n] = true
		for _, p := range pf {
			typeSet[p] = true
		}
	}
	f.Def("profiles", "List (String × List String × Bool × Option (Bool × String × Bool × String × List String))", vlib.LeanList(rows),
		"(profile name = loader key, routing.prefixes, api.openai_compatible, api.anthropic_support = (enabled, messages_path, token_count, min_version, limitations))")

	// ---- per endpoint type a configuration may name (profile names and routing prefixes, as
	// buildPrefixLookup registers them), plus a few that are not registered
	for _, t := range []string{"auto", "", "zz-unknown", "LMStudio", "VLLM"} {
		typeSet[t] = true
	}
	types := vlib.SortedKeys(typeSet)
	var trows []string
	for _, t := range types {
		raw := fac.GetAnthropicSupport(t)
		// the endpoint's own profile, read from the loader directly (NOT through GetAnthropicSupport,
		// so that a broken lookup cannot vouch for itself)
		var res *domain.AnthropicSupportConfig
		if p, ok := all[fac.NormalizeProviderName(t)]; ok && p.GetConfig() != nil {
			res = p.GetConfig().API.AnthropicSupport
		}
		trows = append(trows, vlib.LeanTuple(vlib.LeanStr(t), vlib.LeanBool(fac.ValidateProfileType(t)),
			vlib.LeanBool(raw != nil && raw.Enabled), vlib.LeanBool(res != nil && res.Enabled),
			vlib.LeanStr(handlers.NormaliseProviderType(t))))
	}
	f.Def("endpointTypes", "List (String × Bool × Bool × Bool × String)", vlib.LeanList(trows),
		"(endpoint type as written in a config, ValidateProfileType, GetAnthropicSupport(type) non-nil and enabled — the lookup tryPassthrough performs, api.anthropic_support.enabled of the loader's profile NormalizeProviderName(type) — the endpoint's own profile, read without GetAnthropicSupport, handlers.NormaliseProviderType(type))")

	// ---- constants of the split, by running the translator
	tr := anthropic.NewTranslator(vlib.QuietLogger(), config.AnthropicTranslatorConfig{Enabled: true, MaxMessageSize: 10 << 20, PassthroughEnabled: true})
	body := []byte(`{"model":"m","max_tokens":16,"messages":[{"role":"user","content":"hi"}]}`)
	pt, err := tr.PreparePassthrough(body, httptest.NewRequest("POST", tr.GetAPIPath(), bytes.NewReader(body)), fac)
	if err != nil {
		die("PreparePassthrough: %v", err)
	}
	tq, err := tr.TransformRequest(context.Background(), httptest.NewRequest("POST", tr.GetAPIPath(), bytes.NewReader(body)))
	if err != nil {
		die("TransformRequest: %v", err)
	}
	f.Def("apiPath", "String", vlib.LeanStr(tr.GetAPIPath()), "Translator.GetAPIPath()")
	f.Def("passthroughPath", "String", vlib.LeanStr(pt.TargetPath), "PreparePassthrough(...).TargetPath")
	f.Def("passthroughBodyIdentical", "Bool", vlib.LeanBool(bytes.Equal(pt.Body, body)), "PreparePassthrough(...).Body is the byte slice it was given")
	f.Def("translationPath", "String", vlib.LeanStr(tq.TargetPath), "TransformRequest(...).TargetPath")
	f.Def("modeHeader", "String", vlib.LeanStr(constants.HeaderXOllaMode), "")
	f.Def("modePassthrough", "String", vlib.LeanStr(string(constants.TranslatorModePassthrough)), "")
	f.Def("modeTranslation", "String", vlib.LeanStr(string(constants.TranslatorModeTranslation)), "")
	_, isPC := interface{}(tr).(translator.PassthroughCapable)
	_, isEW := interface{}(tr).(translator.ErrorWriter)
	f.Def("translatorPassthroughCapable", "Bool", vlib.LeanBool(isPC), "anthropic.Translator implements translator.PassthroughCapable")
	f.Def("translatorErrorWriter", "Bool", vlib.LeanBool(isEW), "anthropic.Translator implements translator.ErrorWriter")
	off := anthropic.NewTranslator(vlib.QuietLogger(), config.AnthropicTranslatorConfig{Enabled: true, MaxMessageSize: 10 << 20, PassthroughEnabled: false})
	one := []*domain.Endpoint{{Name: "x", Type: "vllm"}}
	f.Def("canPassthroughTable", "List (Bool × Bool × Bool)", vlib.LeanList([]string{
		vlib.LeanTuple("true", "true", vlib.LeanBool(tr.CanPassthrough(one, fac))),
		vlib.LeanTuple("true", "false", vlib.LeanBool(tr.CanPassthrough(nil, fac))),
		vlib.LeanTuple("false", "true", vlib.LeanBool(off.CanPassthrough(one, fac))),
		vlib.LeanTuple("false", "false", vlib.LeanBool(off.CanPassthrough(nil, fac))),
	}), "(passthrough_enabled, capable subset non-empty, CanPassthrough)")
	// config.Load: what a file says about the translator section and what the loaded configuration says
	{
		var rows []string
		for _, en := range []bool{true, false} {
			for _, pt := range []bool{true, false} {
				for _, mx := range []int64{0, 1 << 20, 10 << 20} {
					tmp, err := os.CreateTemp("", "gen-profiles-*.yaml")
					if err != nil {
						die("temp file: %v", err)
					}
					fmt.Fprintf(tmp, "translators:\n  anthropic:\n    enabled: %v\n    passthrough_enabled: %v\n    max_message_size: %d\n", en, pt, mx)
					tmp.Close()
					cfg, err := config.Load(tmp.Name())
					os.Remove(tmp.Name())
					if err != nil {
						rows = append(rows, vlib.LeanTuple(vlib.LeanBool(en), vlib.LeanBool(pt), vlib.LeanInt(mx), "false", "false", "false"))
						continue
					}
					a := cfg.Translators.Anthropic
					rows = append(rows, vlib.LeanTuple(vlib.LeanBool(en), vlib.LeanBool(pt), vlib.LeanInt(mx), "true", vlib.LeanBool(a.Enabled), vlib.LeanBool(a.PassthroughEnabled)))
				}
			}
		}
		f.Def("loadedTranslatorSection", "List (Bool × Bool × Int × Bool × Bool × Bool)", vlib.LeanList(rows),
			"config.Load: (enabled, passthrough_enabled, max_message_size in the file; loaded without error, enabled and passthrough_enabled in the loaded configuration)")
	}
	f.Def("defaultPassthroughEnabled", "Bool", vlib.LeanBool(config.DefaultConfig().Translators.Anthropic.PassthroughEnabled), "config.DefaultConfig().Translators.Anthropic.PassthroughEnabled")

	// ---- the platform filter the inspector chain derives for the Anthropic route (stage 1 of filterEndpointsByProfile)
	pi := inspector.NewPathInspector(fac, vlib.QuietLogger())
	rp := domain.NewRequestProfile(tr.GetAPIPath())
	_ = pi.Inspect(context.Background(), httptest.NewRequest("POST", tr.GetAPIPath(), bytes.NewReader(body)), rp)
	sup := append([]string{}, rp.SupportedBy...)
	sort.Strings(sup)
	f.Def("anthropicRouteSupportedBy", "List String", vlib.LeanStrList(sup), "RequestProfile.SupportedBy after the path inspector saw the Anthropic route ([] = no platform filtering)")
	f.Write(ns)
}
