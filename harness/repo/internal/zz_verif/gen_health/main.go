//go:build verif

// gen_health renders Olla/Gen/Health.lean: every constant and finite table the C07 / C08
// theorems mention, obtained by evaluating the code compiled from the current tree
// (constructors, exported constants, unexported functions through zz_verif_export.go,
// and behavioural probes of the three breakers with rewound time stamps).
package main

import (
	"context"
	"errors"
	"fmt"
	"io"
	"net"
	"net/url"
	"os"
	"syscall"
	"time"

	"github.com/thushan/olla/internal/adapter/discovery"
	"github.com/thushan/olla/internal/adapter/health"
	"github.com/thushan/olla/internal/adapter/proxy/olla"
	"github.com/thushan/olla/internal/adapter/unifier"
	"github.com/thushan/olla/internal/config"
	"github.com/thushan/olla/internal/core/constants"
	"github.com/thushan/olla/internal/core/domain"
	"github.com/thushan/olla/internal/zz_verif/vlib"
)

const url0 = "http://verif.invalid/health"

// boundary finds, at 10 ms granularity, the smallest rewind d for which admitted(d) is true
// (admitted must be monotone in d). Each point is evaluated three times (majority) so that a
// scheduling hiccup at the wrong moment cannot shift the result. Returns -1 if never admitted.
func boundary(maxD time.Duration, admitted func(d time.Duration) bool) time.Duration {
	const g = 10 * time.Millisecond
	maj := func(d time.Duration) bool {
		n := 0
		for i := 0; i < 3; i++ {
			if admitted(d) {
				n++
			}
		}
		return n >= 2
	}
	lo, hi := int64(0), int64(maxD/g) // in units of g; invariant: !maj(lo-1…), maj(hi)
	if !maj(time.Duration(hi) * g) {
		return -1
	}
	if maj(0) {
		return 0
	}
	for hi-lo > 1 {
		mid := (lo + hi) / 2
		if maj(time.Duration(mid) * g) {
			hi = mid
		} else {
			lo = mid
		}
	}
	return time.Duration(hi) * g
}

func errTypeName(t domain.HealthCheckErrorType) string {
	switch t {
	case domain.ErrorTypeNone:
		return "none"
	case domain.ErrorTypeNetwork:
		return "network"
	case domain.ErrorTypeTimeout:
		return "timeout"
	case domain.ErrorTypeHTTPError:
		return "http_error"
	case domain.ErrorTypeCircuitOpen:
		return "circuit_open"
	}
	return fmt.Sprintf("type%d", int(t))
}

func main() {
	const ns = "Olla.Gen.Health"
	f := vlib.NewLeanFile(ns, "gen_health")
	I := func(d time.Duration) string { return vlib.LeanInt(int64(d)) }
	N := func(n int) string {
		if n < 0 {
			return "0" // a negative threshold is rendered as 0 so that the `0 < threshold` side condition fails
		}
		return vlib.LeanNat(uint64(n))
	}

	// ------------------------------------------------------------------ health breaker
	hcb := health.NewCircuitBreaker()
	hThr, hTo := health.VerifBreakerConfig(hcb)
	f.Def("healthThreshold", "Nat", N(hThr), "failureThreshold installed by health.NewCircuitBreaker()")
	f.Def("healthTimeout", "Int", I(hTo), "timeout installed by health.NewCircuitBreaker(), nanoseconds")
	f.Def("healthThresholdConst", "Nat", N(health.DefaultCircuitBreakerThreshold), "health.DefaultCircuitBreakerThreshold")
	f.Def("healthTimeoutConst", "Int", I(health.DefaultCircuitBreakerTimeout), "health.DefaultCircuitBreakerTimeout")
	// behavioural: failures until IsOpen
	{
		cb := health.NewCircuitBreaker()
		n := 0
		for n < 1000 && !cb.IsOpen(url0) {
			cb.RecordFailure(url0)
			n++
		}
		f.Def("healthThresholdObserved", "Nat", N(n), "RecordFailure calls on a fresh breaker until IsOpen answers true")
	}
	openHealth := func() *health.CircuitBreaker {
		cb := health.NewCircuitBreaker()
		for i := 0; i < 1000 && !cb.IsOpen(url0); i++ {
			cb.RecordFailure(url0)
		}
		return cb
	}
	hToObs := boundary(10*time.Minute, func(d time.Duration) bool {
		cb := openHealth()
		health.VerifRewind(cb, url0, d)
		return !cb.IsOpen(url0)
	})
	f.Def("healthTimeoutObserved", "Int", I(hToObs), "smallest rewind (10 ms grid) after which an open health breaker admits a probe")
	// probe window: after the first probe was admitted, how long until the next one is
	hWin := boundary(time.Minute, func(d time.Duration) bool {
		cb := openHealth()
		health.VerifRewind(cb, url0, hToObs+time.Second)
		if cb.IsOpen(url0) { // first probe must be admitted
			return false
		}
		health.VerifRewind(cb, url0, d)
		return !cb.IsOpen(url0)
	})
	f.Def("healthProbeWindow", "Int", I(hWin), "smallest gap (10 ms grid) after an admitted probe at which the health breaker admits the next one (the literal time.Second in IsOpen)")

	// ------------------------------------------------------------------ engine breaker
	{
		cb := olla.VerifNewEngineBreaker("e")
		n := 0
		for n < 1000 && !cb.IsOpen() {
			cb.RecordFailure()
			n++
		}
		f.Def("engineThreshold", "Nat", N(n), "RecordFailure calls on a fresh olla-engine breaker (Service.GetCircuitBreaker) until IsOpen answers true")
	}
	openEngine := func() *olla.VerifEngineBreaker {
		cb := olla.VerifNewEngineBreaker("e")
		for i := 0; i < 1000 && !cb.IsOpen(); i++ {
			cb.RecordFailure()
		}
		return cb
	}
	eTo := boundary(10*time.Minute, func(d time.Duration) bool {
		cb := openEngine()
		cb.Rewind(d)
		return !cb.IsOpen()
	})
	f.Def("engineTimeout", "Int", I(eTo), "smallest rewind (10 ms grid) after which an open engine breaker goes half-open (the engine reads health.DefaultCircuitBreakerTimeout)")

	// ------------------------------------------------------------------ unifier breaker
	ucfg := unifier.DefaultConfig().CircuitBreaker
	f.Def("unifierEnabled", "Bool", vlib.LeanBool(ucfg.Enabled), "unifier.DefaultConfig().CircuitBreaker.Enabled")
	f.Def("unifierFailureThreshold", "Nat", N(ucfg.FailureThreshold), "… .FailureThreshold")
	f.Def("unifierSuccessThreshold", "Nat", N(ucfg.SuccessThreshold), "… .SuccessThreshold")
	f.Def("unifierOpenDuration", "Int", I(ucfg.OpenDuration), "… .OpenDuration, nanoseconds")
	f.Def("unifierHalfOpenRequests", "Nat", N(ucfg.HalfOpenRequests), "… .HalfOpenRequests")
	openUnifier := func() *unifier.CircuitBreaker {
		cb := unifier.NewCircuitBreaker(ucfg)
		for i := 0; i < 1000 && cb.Allow(); i++ {
			cb.RecordFailure()
		}
		return cb
	}
	uTo := boundary(20*time.Minute, func(d time.Duration) bool {
		cb := openUnifier()
		cb.VerifRewind(d)
		return cb.Allow()
	})
	f.Def("unifierOpenDurationObserved", "Int", I(uTo), "smallest rewind (10 ms grid) after which an open unification breaker allows a request")

	// ------------------------------------------------------------------ back-off
	f.Def("backoffMaxMultiplier", "Nat", N(constants.DefaultMaxBackoffMultiplier), "constants.DefaultMaxBackoffMultiplier")
	f.Def("backoffCap", "Int", I(constants.DefaultMaxBackoffSeconds), "constants.DefaultMaxBackoffSeconds, nanoseconds")
	f.Def("healthMaxMultiplierAlias", "Nat", N(health.MaxBackoffMultiplier), "health.MaxBackoffMultiplier (alias used by calculateBackoff)")
	f.Def("healthCapAlias", "Int", I(health.MaxBackoffSeconds), "health.MaxBackoffSeconds (alias used by calculateBackoff)")
	var rows []string
	for _, iv := range []time.Duration{time.Second, 7 * time.Second, 90 * time.Second} {
		for m := 0; m <= 16; m++ {
			for _, ok := range []bool{false, true} {
				d, m2 := health.VerifCalculateBackoff(iv, m, ok)
				rows = append(rows, vlib.LeanTuple(I(iv), N(m), vlib.LeanBool(ok), I(d), N(m2)))
			}
		}
	}
	f.Def("backoffTable", "List (Int × Nat × Bool × Int × Nat)", vlib.LeanList(rows),
		"health.calculateBackoff evaluated on (CheckInterval, BackoffMultiplier, success) -> (next interval, new multiplier); intervals 1 s, 7 s, 90 s; multipliers 0..16")

	// ------------------------------------------------------------------ status classification
	f.Def("slowThreshold", "Int", I(health.SlowResponseThreshold), "health.SlowResponseThreshold")
	f.Def("clientTimeout", "Int", I(health.DefaultHealthCheckerTimeout), "health.DefaultHealthCheckerTimeout: Timeout of the http.Client NewHTTPHealthCheckerWithDefaults builds")
	f.Def("healthyRangeStart", "Nat", N(health.HealthyEndpointStatusRangeStart), "")
	f.Def("healthyRangeEnd", "Nat", N(health.HealthyEndpointStatusRangeEnd), "")
	// run-length ranges over status codes 0..999 for fast and slow answers
	var ranges []string
	for _, slow := range []bool{false, true} {
		lat := time.Millisecond
		if slow {
			lat = health.SlowResponseThreshold + time.Millisecond
		}
		start := 0
		cur, _ := health.VerifClassify(0, lat, nil)
		for code := 1; code <= 1000; code++ {
			var st domain.EndpointStatus
			if code < 1000 {
				st, _ = health.VerifClassify(code, lat, nil)
			}
			if code == 1000 || st != cur {
				ranges = append(ranges, vlib.LeanTuple(N(start), N(code-1), vlib.LeanBool(slow), vlib.LeanStr(string(cur))))
				start, cur = code, st
			}
		}
	}
	f.Def("statusRanges", "List (Nat × Nat × Bool × String)", vlib.LeanList(ranges),
		"determineStatus over HTTP status codes 0..999 (inclusive ranges) for a fast answer and one slower than SlowResponseThreshold")
	// is the slow boundary strict? latency == threshold exactly
	stAt, _ := health.VerifClassify(200, health.SlowResponseThreshold, nil)
	f.Def("statusAtSlowThreshold", "String", vlib.LeanStr(string(stAt)), "determineStatus(200, latency = SlowResponseThreshold exactly)")
	errs := []struct {
		name string
		err  error
	}{
		{"refused", &url.Error{Op: "Get", URL: url0, Err: &net.OpError{Op: "dial", Net: "tcp", Err: os.NewSyscallError("connect", syscall.ECONNREFUSED)}}},
		{"reset", &url.Error{Op: "Get", URL: url0, Err: &net.OpError{Op: "read", Net: "tcp", Err: os.NewSyscallError("read", syscall.ECONNRESET)}}},
		{"dns", &url.Error{Op: "Get", URL: url0, Err: &net.OpError{Op: "dial", Net: "tcp", Err: &net.DNSError{Err: "no such host", Name: "verif.invalid", IsNotFound: true}}}},
		{"dialTimeout", &url.Error{Op: "Get", URL: url0, Err: &net.OpError{Op: "dial", Net: "tcp", Err: os.ErrDeadlineExceeded}}},
		{"ctxDeadline", &url.Error{Op: "Get", URL: url0, Err: context.DeadlineExceeded}},
		{"ctxCanceled", &url.Error{Op: "Get", URL: url0, Err: context.Canceled}},
		{"eof", io.ErrUnexpectedEOF},
		{"other", errors.New("malformed HTTP response")},
		{"breakerOpen", health.ErrCircuitBreakerOpen},
	}
	var erows []string
	for _, e := range errs {
		st, et := health.VerifClassify(0, time.Millisecond, e.err)
		erows = append(erows, vlib.LeanTuple(vlib.LeanStr(e.name), vlib.LeanStr(string(st)), vlib.LeanStr(errTypeName(et)), vlib.LeanBool(health.VerifShouldRetry(e.err))))
	}
	f.Def("errorTable", "List (String × String × String × Bool)", vlib.LeanList(erows),
		"(error kind built from real net/url/context errors, determineStatus, classifyError, shouldRetry)")
	var srows []string
	for _, s := range []domain.EndpointStatus{domain.StatusHealthy, domain.StatusBusy, domain.StatusOffline, domain.StatusWarming, domain.StatusUnhealthy, domain.StatusUnknown} {
		srows = append(srows, vlib.LeanTuple(vlib.LeanStr(string(s)), vlib.LeanBool(s.IsRoutable())))
	}
	f.Def("statusRoutable", "List (String × Bool)", vlib.LeanList(srows), "EndpointStatus.IsRoutable")
	f.Def("healthClientMaxRetries", "Nat", N(health.DefaultMaxRetries), "health.DefaultMaxRetries (extra attempts inside one check)")
	f.Def("tickerInterval", "Int", I(health.DefaultHealthCheckInterval), "health.DefaultHealthCheckInterval: period of the scheduler ticker")

	// ------------------------------------------------------------------ check limits
	f.Def("minCheckInterval", "Int", I(discovery.MinHealthCheckInterval), "discovery.MinHealthCheckInterval")
	f.Def("maxCheckTimeout", "Int", I(discovery.MaxHealthCheckTimeout), "discovery.MaxHealthCheckTimeout")
	var arows []string
	for _, c := range [][2]time.Duration{
		{discovery.MinHealthCheckInterval - time.Millisecond, 100 * time.Millisecond},
		{discovery.MinHealthCheckInterval, 100 * time.Millisecond},
		{5 * time.Second, 2 * time.Second},
		{5 * time.Second, 5 * time.Second},
		{constants.DefaultMaxBackoffSeconds, time.Second},
		{constants.DefaultMaxBackoffSeconds + time.Second, time.Second},
		{2 * time.Hour, discovery.MaxHealthCheckTimeout},
		{2 * time.Hour, discovery.MaxHealthCheckTimeout + time.Millisecond},
	} {
		repo := discovery.NewStaticEndpointRepository()
		err := repo.LoadFromConfig(context.Background(), []config.EndpointConfig{{Name: "e", URL: "http://verif.invalid:1", HealthCheckURL: "/health", ModelURL: "/models", CheckInterval: c[0], CheckTimeout: c[1]}})
		arows = append(arows, vlib.LeanTuple(I(c[0]), I(c[1]), vlib.LeanBool(err == nil)))
	}
	f.Def("acceptedTimings", "List (Int × Int × Bool)", vlib.LeanList(arows),
		"(check_interval, check_timeout, accepted by StaticEndpointRepository.LoadFromConfig)")
	{
		repo := discovery.NewStaticEndpointRepository()
		_ = repo.LoadFromConfig(context.Background(), []config.EndpointConfig{{Name: "e", URL: "http://verif.invalid:1", HealthCheckURL: "/health", ModelURL: "/models", CheckInterval: 5 * time.Second, CheckTimeout: time.Second}})
		eps, _ := repo.GetAll(context.Background())
		st, mult, fails := "?", -1, -1
		if len(eps) == 1 {
			st, mult, fails = string(eps[0].Status), eps[0].BackoffMultiplier, eps[0].ConsecutiveFailures
		}
		f.Def("initialStatus", "String", vlib.LeanStr(st), "Status of an endpoint right after LoadFromConfig")
		f.Def("initialMultiplier", "Nat", N(mult), "BackoffMultiplier right after LoadFromConfig")
		f.Def("initialFailures", "Nat", N(fails), "ConsecutiveFailures right after LoadFromConfig")
	}
	// the conversion of configured endpoints into domain endpoints: per entry, what was configured and what the
	// repository holds (several entries at once, distinct URLs)
	{
		type ce struct {
			name, typ string
			prio      int
			iv, to    time.Duration
			preserve  bool
		}
		grid := []ce{{"a", "ollama", 100, 5 * time.Second, 2 * time.Second, false}, {"b", "vllm", 1, 13 * time.Second, 5 * time.Second, true},
			{"c", "openai-compatible", 50, 61 * time.Second, 30 * time.Second, false}, {"d", "lm-studio", 0, 2 * time.Second, time.Second, true}}
		var cfgs []config.EndpointConfig
		for i, e := range grid {
			pr := e.prio
			cfgs = append(cfgs, config.EndpointConfig{Name: e.name, URL: fmt.Sprintf("http://verif%d.invalid:1", i), Type: e.typ, Priority: &pr,
				HealthCheckURL: "/health", ModelURL: "/models", CheckInterval: e.iv, CheckTimeout: e.to, PreservePath: e.preserve})
		}
		repo := discovery.NewStaticEndpointRepository()
		err := repo.LoadFromConfig(context.Background(), cfgs)
		eps, _ := repo.GetAll(context.Background())
		var rows []string
		for _, e := range grid {
			row := vlib.LeanTuple(vlib.LeanStr(e.name), vlib.LeanStr("missing"), I(0), I(0), I(0), vlib.LeanBool(false))
			for _, d := range eps {
				if d.Name == e.name {
					row = vlib.LeanTuple(vlib.LeanStr(e.name), vlib.LeanStr(d.Type), I(time.Duration(d.Priority)), I(d.CheckInterval), I(d.CheckTimeout), vlib.LeanBool(d.PreservePath))
				}
			}
			rows = append(rows, vlib.LeanTuple(vlib.LeanTuple(vlib.LeanStr(e.name), vlib.LeanStr(e.typ), I(time.Duration(e.prio)), I(e.iv), I(e.to), vlib.LeanBool(e.preserve)), row))
		}
		f.Def("endpointConversion", "List ((String × String × Int × Int × Int × Bool) × (String × String × Int × Int × Int × Bool))", vlib.LeanList(rows),
			fmt.Sprintf("(configured name, type, priority, check_interval, check_timeout, preserve_path) and what StaticEndpointRepository.LoadFromConfig made of it (load error: %v)", err))
	}
	f.Write(ns)
}
