//go:build verif

// c09: correspondence harness for model-aware routing (property C09).
//
//	route : the three real strategies obtained from routing.Factory, over ALL
//	        (strategy, fallback, refresh-on-miss, refresh outcome) x healthy subsets x lister subsets
//	        of 4 endpoints (exhaustive), with the real domain.ModelRoutingDecision they return.
//	reg   : the real UnifiedMemoryModelRegistry (+ default unifier) composed with the configured
//	        strategy: GetRoutableEndpointsForModel for model spellings (exact, case, tag, alias by
//	        digest, unknown) after a discovery history.
//	http  : the unchanged production wiring (app.CreateAndStartServiceManager) in front of loopback
//	        backends that serve model listings: the real /olla/proxy and /olla/<provider> handlers,
//	        client status, X-Olla-Routing-* headers and which backend received the request.
package main

import (
	"sync/atomic"
	"context"
	"encoding/json"
	"errors"
	"fmt"
	"runtime"
	"sort"
	"strings"
	"sync"
	"time"

	"github.com/thushan/olla/internal/adapter/registry"
	"github.com/thushan/olla/internal/adapter/registry/routing"
	"github.com/thushan/olla/internal/config"
	"github.com/thushan/olla/internal/core/constants"
	"github.com/thushan/olla/internal/core/domain"
	"github.com/thushan/olla/internal/zz_verif/stack"
	"github.com/thushan/olla/internal/zz_verif/vlib"
)

const nEP = 4

// ------------------------------------------------------------------ scripted ports.DiscoveryService

type fakeDisc struct {
	refreshErr error
	healthyErr error
	updated    []*domain.Endpoint
	all        []*domain.Endpoint
	refreshed  int
}

func (f *fakeDisc) GetEndpoints(ctx context.Context) ([]*domain.Endpoint, error) { return f.all, nil }
func (f *fakeDisc) GetHealthyEndpoints(ctx context.Context) ([]*domain.Endpoint, error) {
	if f.healthyErr != nil {
		return nil, f.healthyErr
	}
	return f.updated, nil
}
func (f *fakeDisc) RefreshEndpoints(ctx context.Context) error { f.refreshed++; return f.refreshErr }
func (f *fakeDisc) UpdateEndpointStatus(ctx context.Context, e *domain.Endpoint) error { return nil }

func mkEndpoints() []*domain.Endpoint {
	out := make([]*domain.Endpoint, nEP)
	for i := range out {
		u := fmt.Sprintf("http://h%d:1", i)
		out[i] = &domain.Endpoint{Name: fmt.Sprintf("e%d", i), URLString: u, Type: "openai", Status: domain.StatusHealthy}
	}
	return out
}

func pick(all []*domain.Endpoint, mask int) []*domain.Endpoint {
	var out []*domain.Endpoint
	for i, e := range all {
		if mask&(1<<i) != 0 {
			out = append(out, e)
		}
	}
	return out
}

func ids(mask int) []int {
	out := []int{}
	for i := 0; i < 8; i++ {
		if mask&(1<<i) != 0 {
			out = append(out, i)
		}
	}
	return out
}

func idsOf(all []*domain.Endpoint, got []*domain.Endpoint) []int {
	out := []int{}
	for _, g := range got {
		id := -2
		for i, e := range all {
			if e == g || (g != nil && e.URLString == g.URLString) {
				id = i
			}
		}
		out = append(out, id)
	}
	return out
}

type outcome struct {
	Kind    string `json:"kind"` // ok | refresh-fail | healthy-fail
	Updated []int  `json:"updated"`
}

func decisionJSON(d *domain.ModelRoutingDecision) map[string]any {
	if d == nil {
		return map[string]any{"nil": true, "strategy": "", "action": "", "reason": "", "status": 0}
	}
	return map[string]any{"strategy": d.Strategy, "action": d.Action, "reason": d.Reason, "status": d.StatusCode}
}

func caseRoute(c *vlib.Cases, fac *routing.Factory, all []*domain.Endpoint, typ, fb string, rom bool, oc string, updMask, hMask, lMask int) {
	disc := &fakeDisc{all: all, updated: pick(all, updMask)}
	switch oc {
	case "refresh-fail":
		disc.refreshErr = errors.New("scripted refresh failure")
	case "healthy-fail":
		disc.healthyErr = errors.New("scripted GetHealthyEndpoints failure")
	}
	strat, err := fac.Create(config.ModelRoutingStrategy{Type: typ, Options: config.ModelRoutingStrategyOptions{
		FallbackBehavior: fb, DiscoveryRefreshOnMiss: rom, DiscoveryTimeout: time.Second}}, disc)
	if err != nil || strat == nil {
		c.Emit(map[string]any{"kind": "route", "typ": typ, "fb": fb, "rom": rom, "outcome": outcome{oc, ids(updMask)},
			"healthy": ids(hMask), "listers": ids(lMask), "impl": map[string]any{"factory_error": fmt.Sprint(err)}})
		return
	}
	healthy := pick(all, hMask)
	var listers []string
	for _, i := range ids(lMask) {
		if i < nEP {
			listers = append(listers, all[i].URLString)
		} else {
			listers = append(listers, fmt.Sprintf("http://h%d:1", i)) // a lister the healthy list has never heard of
		}
	}
	var got []*domain.Endpoint
	var dec *domain.ModelRoutingDecision
	var rerr error
	func() {
		defer func() {
			if r := recover(); r != nil {
				rerr = fmt.Errorf("panic: %v", r)
			}
		}()
		got, dec, rerr = strat.GetRoutableEndpoints(context.Background(), "m", healthy, listers)
	}()
	impl := decisionJSON(dec)
	impl["eps"] = idsOf(all, got)
	impl["err"] = rerr != nil
	impl["refreshed"] = disc.refreshed > 0
	impl["name"] = strat.Name()
	if rerr != nil && strings.HasPrefix(rerr.Error(), "panic:") {
		impl["panic"] = rerr.Error()
	}
	c.Emit(map[string]any{"kind": "route", "typ": typ, "fb": fb, "rom": rom, "outcome": outcome{oc, ids(updMask)},
		"healthy": ids(hMask), "listers": ids(lMask), "impl": impl})
}

// ------------------------------------------------------------------ registry + strategy

type mdl struct {
	Name   string `json:"name"`
	Digest string `json:"digest"`
}

func mi(m mdl) *domain.ModelInfo {
	info := &domain.ModelInfo{Name: m.Name, LastSeen: time.Now()}
	if m.Digest != "" {
		d := m.Digest
		info.Details = &domain.ModelDetails{Digest: &d}
	}
	return info
}

// quiesce waits until the async unification goroutines are gone and the catalogue is stable.
func quiesce(reg any, base int, snap func() string) {
	deadline := time.Now().Add(3 * time.Second)
	prev := ""
	for time.Now().Before(deadline) {
		if runtime.NumGoroutine() <= base && vlib.UnifyIdle(reg) {
			cur := snap()
			if cur == prev {
				return
			}
			prev = cur
		}
		time.Sleep(200 * time.Microsecond)
	}
}

func caseReg(c *vlib.Cases, typ, fb string, rom bool, listings [][]mdl, hMask int, spellings []string) {
	all := mkEndpoints()
	disc := &fakeDisc{all: all, updated: pick(all, hMask)}
	rc := &config.ModelRoutingStrategy{Type: typ, Options: config.ModelRoutingStrategyOptions{FallbackBehavior: fb, DiscoveryRefreshOnMiss: rom, DiscoveryTimeout: time.Second}}
	base := vlib.SettledGoroutines()
	reg := registry.NewUnifiedMemoryModelRegistry(vlib.QuietLogger(), nil, rc, disc)
	ctx := context.Background()
	snap := func() string {
		us, _ := reg.GetUnifiedModels(ctx)
		var rows []string
		for _, u := range us {
			var src []string
			for _, s := range u.SourceEndpoints {
				src = append(src, s.EndpointURL+"="+s.NativeName)
			}
			sort.Strings(src)
			rows = append(rows, u.ID+"|"+strings.Join(src, ","))
		}
		sort.Strings(rows)
		return strings.Join(rows, ";")
	}
	for i, l := range listings {
		if i >= nEP || l == nil {
			continue
		}
		var ms []*domain.ModelInfo
		for _, m := range l {
			ms = append(ms, mi(m))
		}
		if err := reg.RegisterModelsWithEndpoint(ctx, all[i], ms); err != nil {
			continue
		}
		quiesce(reg, base, snap)
	}
	healthy := pick(all, hMask)
	for _, sp := range spellings {
		looked, _ := reg.GetEndpointsForModel(ctx, sp)
		var lk []int
		for _, u := range looked {
			for i, e := range all {
				if e.URLString == u {
					lk = append(lk, i)
				}
			}
		}
		sort.Ints(lk)
		if lk == nil {
			lk = []int{}
		}
		got, dec, rerr := reg.GetRoutableEndpointsForModel(ctx, sp, healthy)
		impl := decisionJSON(dec)
		impl["eps"] = idsOf(all, got)
		impl["err"] = rerr != nil
		impl["lookup"] = lk
		c.Emit(map[string]any{"kind": "reg", "typ": typ, "fb": fb, "rom": rom, "listings": listings, "healthy": ids(hMask),
			"model": sp, "impl": impl})
	}
}

// caseRegHistory: several discovery rounds on one registry; after EVERY round every spelling is looked
// up and routed, so that a lookup made while a model was listed cannot colour the lookup made after the
// endpoint re-listed without it (routing must follow the LATEST listing, whatever was asked before).
// A nil listing in a round leaves that endpoint untouched; an empty one re-lists it with nothing.
var histSeq int

// plainRegistry: build the registry the factory builds with model_registry.enable_unifier: false (names resolve by exact match)
var plainRegistry bool

func caseRegHistory(c *vlib.Cases, typ, fb string, rom bool, rounds [][][]mdl, hMask int, spellings []string) {
	all := mkEndpoints()
	disc := &fakeDisc{all: all, updated: pick(all, hMask)}
	rc := &config.ModelRoutingStrategy{Type: typ, Options: config.ModelRoutingStrategyOptions{FallbackBehavior: fb, DiscoveryRefreshOnMiss: rom, DiscoveryTimeout: time.Second}}
	base := vlib.SettledGoroutines()
	reg, err := registry.NewModelRegistry(registry.RegistryConfig{Type: "memory", EnableUnifier: !plainRegistry, RoutingStrategy: rc, Discovery: disc}, vlib.QuietLogger())
	if err != nil {
		c.Emit(map[string]any{"kind": "reg", "typ": typ, "fb": fb, "rom": rom, "impl": map[string]any{"factory_error": err.Error()}})
		return
	}
	ctx := context.Background()
	snap := func() string {
		ur, ok := reg.(*registry.UnifiedMemoryModelRegistry)
		if !ok {
			return ""
		}
		us, _ := ur.GetUnifiedModels(ctx)
		var rows []string
		for _, u := range us {
			var src []string
			for _, s := range u.SourceEndpoints {
				src = append(src, s.EndpointURL+"="+s.NativeName)
			}
			sort.Strings(src)
			rows = append(rows, u.ID+"|"+strings.Join(src, ","))
		}
		sort.Strings(rows)
		return strings.Join(rows, ";")
	}
	// requests resolving names while the listings change (every second history): what they read is not judged, what
	// everybody reads once the registration has been processed is
	histSeq++
	if histSeq%2 == 0 {
		var halt atomic.Bool
		var rwg sync.WaitGroup
		for g := 0; g < 2; g++ {
			rwg.Add(1)
			go func(g int) {
				defer rwg.Done()
				for n := 0; !halt.Load(); n++ {
					_, _ = reg.GetEndpointsForModel(ctx, spellings[(n+g)%len(spellings)])
				}
			}(g)
		}
		base += 2
		defer func() { halt.Store(true); rwg.Wait() }()
	}
	effective := make([][]mdl, nEP)
	healthy := pick(all, hMask)
	for ri, round := range rounds {
		for i, l := range round {
			if i >= nEP || l == nil {
				continue
			}
			ms := []*domain.ModelInfo{}
			for _, m := range l {
				ms = append(ms, mi(m))
			}
			if ur, ok := reg.(*registry.UnifiedMemoryModelRegistry); ok {
				if err := ur.RegisterModelsWithEndpoint(ctx, all[i], ms); err != nil {
					continue
				}
			} else if err := reg.RegisterModels(ctx, all[i].URLString, ms); err != nil {
				continue
			}
			effective[i] = append([]mdl{}, l...)
			quiesce(reg, base, snap)
		}
		eff := make([][]mdl, nEP)
		for i := range effective {
			if effective[i] != nil {
				eff[i] = append([]mdl{}, effective[i]...)
			}
		}
		for _, sp := range spellings {
			looked, _ := reg.GetEndpointsForModel(ctx, sp)
			lk := []int{}
			for _, u := range looked {
				for i, e := range all {
					if e.URLString == u {
						lk = append(lk, i)
					}
				}
			}
			sort.Ints(lk)
			got, dec, rerr := reg.GetRoutableEndpointsForModel(ctx, sp, healthy)
			impl := decisionJSON(dec)
			impl["eps"] = idsOf(all, got)
			impl["err"] = rerr != nil
			impl["lookup"] = lk
			c.Emit(map[string]any{"kind": "reg", "typ": typ, "fb": fb, "rom": rom, "listings": eff, "healthy": ids(hMask),
				"model": sp, "round": ri, "impl": impl, "plain": plainRegistry})
		}
	}
}

// ------------------------------------------------------------------ production stack

type httpCfg struct {
	Typ    string
	Fb     string
	Rom    bool
	Engine string
}

var httpSeq int

// "pixel-vision" and "text-embedding-x" are names the openai-compatible profile's capability patterns class as a vision
// and an embeddings model: requests that need such a capability are sent between the judged ones (see interlude)
var httpListings = [][]string{{"alpha", "Beta", "pixel-vision"}, {"alpha", "gamma", "text-embedding-x"}, {"delta"}}

// interlude: requests of other shapes — a picture in the content, a tools array, an embeddings input — for models that
// have the capability, sent on the same running stack between the judged requests and not judged themselves (which
// endpoints may serve a request that needs a capability is not C09's subject).  What they needed must not matter to the
// plain request that follows: C09 routes a request by the model IT names.
var interludes = []string{
	`{"model":"pixel-vision","messages":[{"role":"user","content":[{"type":"text","text":"what is this"},{"type":"image_url","image_url":{"url":"data:image/png;base64,AAAA"}}]}]}`,
	`{"model":"text-embedding-x","input":"hello"}`,
	`{"model":"alpha","messages":[{"role":"user","content":"hi"}],"tools":[{"type":"function","function":{"name":"f","parameters":{"type":"object"}}}]}`,
	`{"model":"pixel-vision","messages":[{"role":"user","content":"write a function"}],"tools":[{"type":"function","function":{"name":"g"}}]}`,
}
var httpSpellings = []string{"alpha", "ALPHA", "Beta", "beta", "gamma", "delta", "alpha:latest", "nope"}
var httpHealth = []int{0b111, 0b011, 0b100, 0b101, 0b000}

type spVariant struct {
	sp  string
	dup int // > 0: the body carries the model member twice, padded to about this many bytes
	pad int // > 0: an ordinary document (model member first, once) padded to about this many bytes
}

func spellingVariants(hm int) []spVariant {
	var out []spVariant
	for _, sp := range httpSpellings {
		out = append(out, spVariant{sp, 0, 0})
	}
	if hm == 0b111 || hm == 0b011 {
		for _, sp := range []string{"alpha", "gamma", "delta", "nope"} {
			out = append(out, spVariant{sp, 24, 0}, spVariant{sp, 70000, 0}, spVariant{sp, 300000, 0})
		}
	}
	if hm == 0b111 || hm == 0b101 {
		// documents around the body inspector's 1 MiB: a long prompt or an inline picture names its model like any other
		for _, sp := range []string{"delta", "gamma", "nope"} {
			out = append(out, spVariant{sp, 0, 1<<20 - 4096}, spVariant{sp, 0, 1<<20 + 4096}, spVariant{sp, 0, 3 << 20})
		}
	}
	return out
}

func openAIListing(names []string) string {
	type m struct {
		ID     string `json:"id"`
		Object string `json:"object"`
	}
	var data []m
	for _, n := range names {
		data = append(data, m{ID: n, Object: "model"})
	}
	b, _ := json.Marshal(map[string]any{"object": "list", "data": data})
	return string(b)
}

// runHTTP retries when the freshly started stack does not answer as this process's Olla (another
// process on the machine can grab the probed free port between the probe and Olla's own listen).
func runHTTP(c *vlib.Cases, hc httpCfg, mu *sync.Mutex) {
	for try := 0; try < 4; try++ {
		if runHTTPOnce(c, hc, mu, try == 3) {
			return
		}
	}
}

func runHTTPOnce(c *vlib.Cases, hc httpCfg, mu *sync.Mutex, last bool) bool {
	var bes []*stack.Backend
	var eps []stack.EP
	for i, l := range httpListings {
		b := stack.NewBackend(fmt.Sprintf("e%d", i))
		body := openAIListing(l)
		b.Listing = func(p string) (int, string) {
			if p == "/v1/models" {
				return 200, body
			}
			return 0, ""
		}
		bes = append(bes, b)
		eps = append(eps, stack.EP{Name: b.Name, Type: "openai", Priority: 100 - i, Backend: b})
	}
	defer func() {
		for _, b := range bes {
			b.Close()
		}
	}()
	s, err := stack.Start(stack.Opts{Vary: stack.VaryFor("c09.http", hc), Engine: hc.Engine, Balancer: "priority", EPs: eps, ModelDiscovery: true, Mutate: func(cfg *config.Config) {
		cfg.ModelRegistry.RoutingStrategy.Type = hc.Typ
		cfg.ModelRegistry.RoutingStrategy.Options.FallbackBehavior = hc.Fb
		cfg.ModelRegistry.RoutingStrategy.Options.DiscoveryRefreshOnMiss = hc.Rom
		cfg.ModelRegistry.RoutingStrategy.Options.DiscoveryTimeout = time.Second
		cfg.Discovery.ModelDiscovery.Interval = time.Hour
	}})
	if err != nil {
		if !last {
			return false
		}
		mu.Lock()
		c.Emit(map[string]any{"kind": "http", "typ": hc.Typ, "fb": hc.Fb, "rom": hc.Rom, "engine": hc.Engine, "impl": map[string]any{"start_error": err.Error()}})
		mu.Unlock()
		return true
	}
	defer s.Stop()
	// wait until the start-up discovery (and the async unification behind it) has catalogued every listing
	reg, _ := s.Disc.GetRegistry()
	deadline := time.Now().Add(3 * time.Second)
	for time.Now().Before(deadline) {
		ok := true
		for i, l := range httpListings {
			got, _ := reg.GetModelsForEndpoint(context.Background(), bes[i].URL())
			if len(got) != len(l) {
				ok = false
			}
		}
		if ok {
			break
		}
		time.Sleep(5 * time.Millisecond)
	}
	stack.Quiesce(func() string {
		if ur, ok := reg.(*registry.UnifiedMemoryModelRegistry); ok {
			us, _ := ur.GetUnifiedModels(context.Background())
			return fmt.Sprint(len(us))
		}
		return ""
	})
	// sanity probe: a listed model must be served by one of OUR backends through OUR Olla
	{
		body, _ := json.Marshal(map[string]any{"model": "alpha", "messages": []map[string]string{{"role": "user", "content": "hi"}}})
		r := stack.Do(s.Addr, stack.Request("POST", "/olla/proxy/v1/chat/completions", s.Addr, [][2]string{{"Content-Type", "application/json"}}, body, false), 5*time.Second)
		got := 0
		for _, b := range bes {
			got += len(b.Taken())
		}
		if (got != 1 || len(r.Header[constants.HeaderXOllaEndpoint]) == 0) && !last {
			return false
		}
	}
	var listings [][]mdl
	for _, l := range httpListings {
		var ms []mdl
		for _, n := range l {
			ms = append(ms, mdl{Name: n})
		}
		listings = append(listings, ms)
	}
	for _, hm := range httpHealth {
		for i, b := range bes {
			st := domain.StatusUnhealthy
			if hm&(1<<i) != 0 {
				st = domain.StatusHealthy
			}
			s.SetStatus(b.Name, st)
		}
		for _, spx := range spellingVariants(hm) {
			sp, dupKey := spx.sp, spx.dup
			for _, route := range []string{"proxy", "provider"} {
				path := "/olla/proxy/v1/chat/completions"
				if route == "provider" {
					path = "/olla/openai/v1/chat/completions"
				}
				for _, b := range bes {
					b.Taken()
				}
				body, _ := json.Marshal(map[string]any{"model": sp, "messages": []map[string]string{{"role": "user", "content": "hi"}}})
				if dupKey > 0 {
					// the "model" member written twice (RFC 8259 allows it; a front proxy that overrides the model by appending a
					// member produces it): Go's decoder, Ollama and the Python / JS decoders of the other backends keep the LAST
					// one, so that is the model the request names — for small and for large documents alike
					decoy := "delta"
					if sp == "delta" {
						decoy = "alpha"
					}
					pad := strings.Repeat("lorem ipsum ", dupKey/12)
					body = []byte(`{"model":"` + decoy + `","messages":[{"role":"user","content":"` + pad + `"}],"model":"` + sp + `"}`)
				}
				if spx.pad > 0 {
					body = []byte(`{"model":"` + sp + `","messages":[{"role":"user","content":"` + strings.Repeat("lorem ipsum ", spx.pad/12) + `"}]}`)
				}
				// every other request is sent with Transfer-Encoding: chunked (no declared length): the model named in
				// the body must be routed the same way however the body is framed
				httpSeq++
				if httpSeq%3 == 0 {
					il := interludes[(httpSeq/3)%len(interludes)]
					ip := "/olla/proxy/v1/chat/completions"
					if strings.Contains(il, `"input"`) {
						ip = "/olla/proxy/v1/embeddings"
					}
					stack.Do(s.Addr, stack.Request("POST", ip, s.Addr, [][2]string{{"Content-Type", "application/json"}}, []byte(il), false), 5*time.Second)
					for _, b := range bes {
						b.Taken()
					}
				}
				r := stack.Do(s.Addr, stack.Request("POST", path, s.Addr, [][2]string{{"Content-Type", "application/json"}}, body, httpSeq%2 == 0), 5*time.Second+time.Duration(len(body)>>20)*10*time.Second)
				backend := -1
				nb := 0
				for i, b := range bes {
					if k := len(b.Taken()); k > 0 {
						backend = i
						nb += k
					}
				}
				h1 := func(k string) any {
					if v := r.Header[k]; len(v) > 0 {
						return v[0]
					}
					return nil
				}
				impl := map[string]any{"status": r.Status, "err": r.Err, "backend": backend, "backend_requests": nb,
					"h_strategy": h1(constants.HeaderXOllaRoutingStrategy), "h_decision": h1(constants.HeaderXOllaRoutingDecision),
					"h_reason": h1(constants.HeaderXOllaRoutingReason), "h_endpoint": h1(constants.HeaderXOllaEndpoint)}
				mu.Lock()
				c.Emit(map[string]any{"kind": "http", "typ": hc.Typ, "fb": hc.Fb, "rom": hc.Rom, "engine": hc.Engine, "route": route,
					"listings": listings, "healthy": ids(hm), "model": sp, "doc_len": len(body), "chunked": httpSeq%2 == 0, "impl": impl})
				c.Count("http." + route)
				mu.Unlock()
			}
		}
	}
	// the olla engine's breaker skips the only endpoint that lists the model (it failed often enough, and is healthy
	// again): whatever the retry loop does about the skip, the request is not handed to an endpoint that does not list
	// the model — the candidates were fixed by the routing stage
	if hc.Engine == "olla" {
		for i, b := range bes {
			s.SetStatus(b.Name, domain.StatusHealthy)
			_ = i
		}
		body, _ := json.Marshal(map[string]any{"model": "delta", "messages": []map[string]string{{"role": "user", "content": "hi"}}})
		send := func() *stack.Resp {
			return stack.Do(s.Addr, stack.Request("POST", "/olla/proxy/v1/chat/completions", s.Addr, [][2]string{{"Content-Type", "application/json"}}, body, false), 3*time.Second)
		}
		bes[2].SetBehaviour(stack.Behaviour{Kind: "close0"})
		primed := 0
		for i := 0; i < 12; i++ {
			before := bes[2].Count()
			send()
			s.SetStatus(bes[2].Name, domain.StatusHealthy)
			if bes[2].Count() == before {
				break
			}
			primed++
		}
		stray := 0
		for i, b := range bes {
			if i != 2 {
				stray += b.Count()
			}
			b.Taken()
		}
		bes[2].SetBehaviour(stack.Behaviour{Kind: "ok", Status: 200, Headers: [][2]string{{"Content-Type", "application/json"}}, Body: []byte(`{"ok":true}`)})
		r := send()
		var contacted []int
		for i, b := range bes {
			if b.Count() > 0 {
				contacted = append(contacted, i)
			}
			b.Taken()
		}
		mu.Lock()
		c.Emit(map[string]any{"kind": "http-breaker", "typ": hc.Typ, "fb": hc.Fb, "rom": hc.Rom, "engine": hc.Engine, "model": "delta", "listers": []int{2},
			"impl": map[string]any{"primed": primed, "stray_while_priming": stray, "status": r.Status, "contacted": contacted}})
		c.Count("http.breaker")
		mu.Unlock()
	}
	return true
}

// ------------------------------------------------------------------ main

func main() {
	tier := vlib.Tier()
	thorough := tier == "thorough"
	r := vlib.NewRng(vlib.Seed())
	c := vlib.OpenCases("cases.jsonl")
	fac := routing.NewFactory(vlib.QuietLogger())
	all := mkEndpoints()

	typs := []string{routing.StrategyStrict, routing.StrategyOptimistic, routing.StrategyDiscovery}
	fbs := []string{constants.FallbackBehaviorCompatibleOnly, constants.FallbackBehaviorNone, constants.FallbackBehaviorAll, ""}
	type ocase struct {
		kind string
		upd  func(h int) int
	}
	ocs := []ocase{{"ok", func(h int) int { return h }}, {"ok", func(int) int { return 0 }}, {"ok", func(int) int { return 0b1111 }},
		{"refresh-fail", func(h int) int { return h }}, {"healthy-fail", func(h int) int { return h }},
		// the refreshed healthy list is as long as, or shorter than, the caller's candidates but has other members (an
		// endpoint went down and another came up between the handler's read and the strategy's re-read)
		{"ok", func(h int) int { return (h<<1 | h>>3) & 0b1111 }}, {"ok", func(h int) int { return h >> 1 }}, {"ok", func(h int) int { return h ^ 0b0101 }}}

	// the known witnesses first (they are the corpus)
	caseRoute(c, fac, all, routing.StrategyDiscovery, constants.FallbackBehaviorCompatibleOnly, false, "ok", 0b0001, 0b0001, 0)
	caseRoute(c, fac, all, routing.StrategyDiscovery, constants.FallbackBehaviorNone, true, "healthy-fail", 0b0001, 0b0001, 0)
	caseRoute(c, fac, all, routing.StrategyStrict, "", false, "ok", 0, 0, 0)
	c.Count("route.witness")
	c.Count("route.witness")
	c.Count("route.witness")

	// exhaustive decision table
	for _, typ := range typs {
		for _, fb := range fbs {
			for _, rom := range []bool{false, true} {
				for _, oc := range ocs {
					for h := 0; h < 16; h++ {
						for l := 0; l < 16; l++ {
							caseRoute(c, fac, all, typ, fb, rom, oc.kind, oc.upd(h), h, l)
						}
					}
					c.Count("route." + typ)
				}
			}
		}
	}
	// factory defaults: unknown / empty / wrong-case type names, unknown fallback values, listers outside the universe
	for _, typ := range []string{"", "zz-unknown", "STRICT", "Optimistic"} {
		for _, fb := range []string{constants.FallbackBehaviorAll, constants.FallbackBehaviorNone} {
			for h := 0; h < 16; h++ {
				for l := 0; l < 16; l += 3 {
					caseRoute(c, fac, all, typ, fb, true, "ok", h, h, l)
				}
			}
			c.Count("route.unknown-type")
		}
	}
	for _, typ := range typs {
		for _, fb := range []string{"zz-unknown", "ALL", "None"} {
			for h := 0; h < 16; h += 5 {
				for _, l := range []int{0, 0b10000, 0b10001, 0b0110} {
					caseRoute(c, fac, all, typ, fb, true, "ok", h, h, l)
				}
			}
			c.Count("route.unknown-fallback")
		}
	}

	// registry + strategy: spellings after a discovery history
	names := []string{"llama3", "Llama3", "llama3:latest", "phi", "qwen", "mistral"}
	digs := []string{"", "", "sha256:aaaaaaaaaaaa", "sha256:bbbbbbbbbbbb"}
	nreg := 150
	if thorough {
		nreg = 3000
	}
	cfgs := []struct {
		typ, fb string
		rom     bool
	}{{"strict", "compatible_only", false}, {"optimistic", "compatible_only", false}, {"optimistic", "none", false}, {"optimistic", "all", false},
		{"discovery", "compatible_only", false}, {"discovery", "none", true}, {"discovery", "all", true}}
	// hand-written: alias by digest, case variant, tag variant
	caseReg(c, "strict", "compatible_only", false, [][]mdl{{{"llama3:latest", "sha256:aaaaaaaaaaaa"}}, {{"llama3", "sha256:aaaaaaaaaaaa"}}, {{"phi", ""}}, nil},
		0b0111, []string{"llama3", "llama3:latest", "LLAMA3", "Phi", "phi", "nope", "llama3:8b"})
	caseReg(c, "strict", "compatible_only", false, [][]mdl{{{"llama3:latest", "sha256:aaaaaaaaaaaa"}}, {{"llama3", "sha256:aaaaaaaaaaaa"}}, {{"phi", ""}}, nil},
		0b0010, []string{"llama3", "llama3:latest", "LLAMA3", "Phi", "phi", "nope"})
	for i := 0; i < nreg; i++ {
		cf := cfgs[r.Intn(len(cfgs))]
		// every model name gets one digest for the whole case (same name / different digest is C10's alphabet);
		// two different names may share a digest (alias)
		dig := map[string]string{}
		for _, n := range names {
			dig[n] = vlib.Pick(r, digs)
		}
		// case variants of one name must not carry conflicting digests, and a name that equals another ignoring
		// case is only ever listed natively in one spelling per case (keeps "listing contains M" unambiguous)
		dig["Llama3"] = dig["llama3"]
		useUpper := r.Bool()
		listings := make([][]mdl, nEP)
		for e := 0; e < nEP; e++ {
			if r.Chance(1, 5) {
				continue
			}
			k := r.Intn(4)
			seen := map[string]bool{}
			for j := 0; j < k; j++ {
				n := vlib.Pick(r, names)
				if n == "llama3" && useUpper {
					n = "Llama3"
				} else if n == "Llama3" && !useUpper {
					n = "llama3"
				}
				if seen[n] {
					continue
				}
				seen[n] = true
				listings[e] = append(listings[e], mdl{n, dig[n]})
			}
		}
		sp := []string{"llama3", "Llama3", "LLAMA3", "llama3:latest", "phi", "PHI", "qwen", "mistral", "nope"}
		caseReg(c, cf.typ, cf.fb, cf.rom, listings, r.Intn(16), sp)
		c.Count("reg." + cf.typ)
	}

	// discovery histories: a model is asked for while listed, the endpoint re-lists without it, it is asked for again
	caseRegHistory(c, "strict", "compatible_only", false, [][][]mdl{
		{{{"Qwen2.5-Coder:7B", ""}}, {{"Qwen2.5-Coder:7B", ""}}, nil, nil},
		{{{"other", ""}}, nil, nil, nil},
		{nil, {}, nil, nil}}, 0b0011, []string{"qwen2.5-coder:7b", "Qwen2.5-Coder:7B", "QWEN2.5-CODER:7B", "other", "nope"})
	plainRegistry = true
	caseRegHistory(c, "strict", "compatible_only", false, [][][]mdl{
		{{{"Qwen2.5-Coder:7B", ""}}, {{"Qwen2.5-Coder:7B", ""}}, nil, nil},
		{{{"other", ""}}, nil, nil, nil},
		{nil, {}, nil, nil}}, 0b0011, []string{"qwen2.5-coder:7b", "Qwen2.5-Coder:7B", "QWEN2.5-CODER:7B", "other", "nope"})
	plainRegistry = false
	nhist := 90
	if thorough {
		nhist = 1500
	}
	hnames := []string{"Beta", "Qwen2.5-Coder:7B", "alpha", "Gamma:Latest", "phi"}
	hsp := []string{"beta", "Beta", "BETA", "qwen2.5-coder:7b", "alpha", "ALPHA", "gamma:latest", "gamma", "phi", "nope"}
	for i := 0; i < nhist; i++ {
		cf := cfgs[r.Intn(len(cfgs))]
		nr := 2 + r.Intn(3)
		rounds := make([][][]mdl, nr)
		for ri := range rounds {
			rounds[ri] = make([][]mdl, nEP)
			for e := 0; e < nEP; e++ {
				if ri > 0 && r.Chance(1, 2) {
					continue // unchanged this round
				}
				l := []mdl{}
				seen := map[string]bool{}
				for j := 0; j < r.Intn(3); j++ {
					n := vlib.Pick(r, hnames)
					if !seen[n] {
						seen[n] = true
						l = append(l, mdl{n, ""})
					}
				}
				rounds[ri][e] = l
			}
		}
		plainRegistry = i%3 == 2
		caseRegHistory(c, cf.typ, cf.fb, cf.rom, rounds, 1+r.Intn(15), hsp)
		c.Count("reghist." + cf.typ + map[bool]string{false: "", true: ".plain-registry"}[plainRegistry])
		plainRegistry = false
	}

	// production stack
	var hcs []httpCfg
	engines := []string{"sherpa", "olla"}
	for _, eng := range engines {
		hcs = append(hcs, httpCfg{"strict", "compatible_only", false, eng})
		for _, fb := range []string{"compatible_only", "none", "all"} {
			hcs = append(hcs, httpCfg{"optimistic", fb, false, eng})
			hcs = append(hcs, httpCfg{"discovery", fb, true, eng})
		}
		hcs = append(hcs, httpCfg{"discovery", "all", false, eng})
		hcs = append(hcs, httpCfg{"discovery", "none", false, eng})
	}
	var mu sync.Mutex
	var wg sync.WaitGroup
	sem := make(chan struct{}, 6)
	for _, hc := range hcs {
		wg.Add(1)
		sem <- struct{}{}
		go func(hc httpCfg) {
			defer wg.Done()
			defer func() { <-sem }()
			defer func() {
				if rec := recover(); rec != nil {
					mu.Lock()
					c.Emit(map[string]any{"kind": "http", "typ": hc.Typ, "fb": hc.Fb, "rom": hc.Rom, "engine": hc.Engine, "impl": map[string]any{"start_error": fmt.Sprint("panic: ", rec)}})
					mu.Unlock()
				}
			}()
			runHTTP(c, hc, &mu)
		}(hc)
	}
	wg.Wait()

	c.Close(map[string]any{"exhaustive": true,
		"exhaustive_note": "route: every (strategy in strict/optimistic/discovery) x (fallback in compatible_only/none/all/\"\") x refresh_on_miss x 5 refresh outcomes x 16 healthy subsets x 16 lister subsets of 4 endpoints through the real routing.Factory strategies (30720 cases); reg and http are sampled / hand-enumerated configurations",
		"http_configs": len(hcs)})
}
