//go:build verif

// c05: every way a request can fail x route family x stream flag x engine through the unchanged
// production stack. One fresh stack per scenario; the client is a raw socket with a 2 s wall-clock
// bound; what is recorded is the status, Content-Type and body the client saw, how long it took,
// and which backends were contacted.
package main

import (
	"github.com/thushan/olla/internal/adapter/proxy/olla"
	"bytes"
	"strings"
	"encoding/hex"
	"encoding/json"
	"fmt"
	"os"
	"sort"
	"sync"
	"time"

	"github.com/thushan/olla/internal/config"
	"github.com/thushan/olla/internal/core/domain"
	"github.com/thushan/olla/internal/zz_verif/anth"
	"github.com/thushan/olla/internal/zz_verif/scen"
	"github.com/thushan/olla/internal/zz_verif/stack"
	"github.com/thushan/olla/internal/zz_verif/vlib"
)

// Scenario is the whole input of one case.
type Scenario struct {
	Fault   string `json:"fault"`    // none | no-endpoints | unknown-model | refuse | reset0 | close0 | garbage | mixed | b4xx | b5xx | malformed | body-reset | bad-request
	Route   string `json:"route"`    // proxy | provider | anthropic (translation: openai-type endpoints) | anthropic-pt (passthrough: vllm-type endpoints)
	Stream  bool   `json:"stream"`
	Engine  string `json:"engine"`
	N       int    `json:"n"`        // endpoints
	Status  int    `json:"status"`   // backend status for b4xx / b5xx (200 otherwise)
	ErrBody string `json:"err_body"` // json | text : body kind of a backend error answer
	Salt    string `json:"salt"`
	SlowMs  int    `json:"slow_ms,omitempty"` // the backend only fails / answers after this long (the failure becomes known late)
	// Strategy: "" = default (strict); "<type>-<fallback>" = model_registry.routing_strategy of that type (optimistic | discovery,
	// the latter with discovery_refresh_on_miss) and fallback_behavior (all | none | compatible_only). Judged by the
	// property's clauses on what the client saw; the handler model is not consulted for these
	Strategy string `json:"strategy,omitempty"`
	// HalfOpen (olla engine): every endpoint's breaker was opened by a history of failed exchanges and its window has
	// elapsed, so the judged request is the recovery probe
	HalfOpen bool `json:"half_open,omitempty"`
}

type Obs struct {
	StartErr  string   `json:"start_err,omitempty"`
	Err       string   `json:"err"`
	Status    int      `json:"status"`
	CT        string   `json:"content_type"`
	BodyHex   string   `json:"body_hex"`
	// BigClass is set when the client's or the backend's body is over 1 MiB: the byte comparison is made here
	// ("equal" | "prefix" | "other") and only the heads of both bodies travel to the driver
	BigClass string `json:"big_class,omitempty"`
	BodyLen  int    `json:"body_len"`
	Mode      string   `json:"mode"` // X-Olla-Mode
	Ms        int64    `json:"ms"`
	Contacted []string `json:"contacted"`   // backends that received the request, in order
	Paths     []string `json:"paths"`       // path each of them saw
	Shapes    []string `json:"shapes"`      // anthropic | openai | other
	SentHex   string   `json:"sent_hex"`    // response body the (last contacted) backend was scripted to send
	SentCT    string   `json:"sent_ct"`
	Offline   []string `json:"offline"`     // repository status offline after the request
}

func backendErrBody(kind string, status int) ([]byte, string) {
	if kind == "text" {
		return []byte(fmt.Sprintf("upstream says %d, sorry\n", status)), "text/plain; charset=utf-8"
	}
	if kind == "big" { // an error page far larger than any pipe/buffer size on the way
		return []byte(fmt.Sprintf("<html><body>%d ", status) + strings.Repeat("stack trace line\n", 16000) + "</body></html>"), "text/html"
	}
	if kind == "huge" { // a validation error that echoes a large prompt back: several MiB of JSON
		b, _ := json.Marshal(map[string]any{"detail": []any{map[string]any{"loc": []string{"body", "messages"}, "msg": "value is not a valid list", "input": strings.Repeat("lorem ipsum dolor sit amet ", 120000)}}})
		return b, "application/json"
	}
	b, _ := json.Marshal(map[string]any{"error": map[string]any{"message": fmt.Sprintf("backend refused with %d", status), "type": "backend_error", "code": "e" + fmt.Sprint(status)}})
	return b, "application/json"
}

func run(sc *Scenario) *Obs {
	obs := &Obs{}
	typ := "openai"
	if sc.Route == "anthropic-pt" {
		typ = "vllm"
	}
	var bes []*stack.Backend
	var eps []stack.EP
	for i := 0; i < sc.N; i++ {
		b := stack.NewBackend(string(rune('A' + i)))
		b.Listing = anth.OpenAIListing([]string{anth.Model, "other"})
		bes = append(bes, b)
		eps = append(eps, stack.EP{Name: b.Name, Type: typ, Priority: 300 - 100*i, Backend: b})
	}
	defer func() {
		for _, b := range bes {
			b.Close()
		}
	}()
	s, err := stack.Start(stack.Opts{Vary: stack.VaryForJSON("c05", sc), Engine: sc.Engine, Balancer: "priority", EPs: eps, ModelDiscovery: true, Mutate: func(cfg *config.Config) {
		cfg.Discovery.ModelDiscovery.Interval = time.Hour
		cfg.Translators.Anthropic.Enabled = true
		cfg.Translators.Anthropic.PassthroughEnabled = true
		if typ, fb, ok := strings.Cut(sc.Strategy, "-"); ok {
			cfg.ModelRegistry.RoutingStrategy.Type = typ
			cfg.ModelRegistry.RoutingStrategy.Options.FallbackBehavior = fb
			cfg.ModelRegistry.RoutingStrategy.Options.DiscoveryRefreshOnMiss = typ == "discovery"
			cfg.ModelRegistry.RoutingStrategy.Options.DiscoveryTimeout = time.Second
		}
	}})
	if err != nil {
		obs.StartErr = err.Error()
		return obs
	}
	defer s.Stop()
	if !anth.WaitCatalogued(s, bes, 2) {
		obs.StartErr = "model catalogue did not settle"
		return obs
	}
	if sc.HalfOpen {
		if svc, ok := s.Proxy.(*olla.Service); ok {
			for i, b := range bes {
				for j, o := range bes { // isolate endpoint i
					st := domain.StatusOffline
					if j == i {
						st = domain.StatusHealthy
					}
					s.SetStatus(o.Name, st)
				}
				b.SetBehaviour(stack.Behaviour{Kind: "close0"})
				for k := 0; k < 12; k++ {
					before := b.Count()
					stack.Do(s.Addr, stack.Request("POST", "/olla/proxy/v1/chat/completions", s.Addr, [][2]string{{"Content-Type", "application/json"}}, []byte(`{"prime":true}`), false), 2*time.Second)
					s.SetStatus(b.Name, domain.StatusHealthy)
					if b.Count() == before {
						break // the breaker no longer lets anything through: it is open
					}
				}
				b.Taken()
				olla.VerifRewindEndpointBreaker(svc, b.Name, 31*time.Second)
			}
			for _, o := range bes {
				s.SetStatus(o.Name, domain.StatusHealthy)
			}
		}
	}
	var sent []byte
	var sentCT string
	var smu sync.Mutex
	for i, b := range bes {
		name := b.Name
		kind := sc.Fault
		if kind == "mixed" {
			kind = []string{"refuse", "reset0", "close0"}[i%3]
		}
		switch kind {
		case "refuse":
			b.Refuse()
		case "reset0", "close0", "garbage":
			if sc.SlowMs > 0 && kind == "close0" {
				b.SetBehaviour(stack.Behaviour{Kind: "stall0", StallMs: sc.SlowMs}) // accepts the request, says nothing, closes late
			} else {
				b.SetBehaviour(stack.Behaviour{Kind: kind})
			}
		case "b4xx", "b5xx":
			body, ct := backendErrBody(sc.ErrBody, sc.Status)
			b.SetScript(func(int, *stack.Seen) stack.Behaviour {
				smu.Lock()
				sent, sentCT = body, ct
				smu.Unlock()
				bh := stack.Behaviour{Kind: "ok", Status: sc.Status, Headers: [][2]string{{"Content-Type", ct}, {"X-Backend", name}}, Body: body}
				if sc.SlowMs > 0 {
					gate := make(chan struct{})
					time.AfterFunc(time.Duration(sc.SlowMs)*time.Millisecond, func() { close(gate) })
					bh.Gate = gate
				}
				return bh
			})
		case "malformed":
			b.SetScript(func(_ int, sn *stack.Seen) stack.Behaviour {
				ct := "application/json"
				if anth.WantsStream(sn.Body) {
					ct = "text/event-stream"
				}
				body := []byte(`{"id":"chatcmpl-1","choices":[{"index":0,"message":{"role":"assist`)
				switch sc.ErrBody { // well-formed JSON of the wrong shape, answered with 200
				case "emptyobj":
					body = []byte(`{}`)
				case "nochoices":
					body = []byte(`{"id":"chatcmpl-1","object":"chat.completion","choices":[]}`)
				case "error200":
					body = []byte(`{"error":{"message":"model overloaded","type":"server_error"}}`)
				case "legacy":
					body = []byte(`{"id":"cmpl-1","object":"text_completion","choices":[{"index":0,"text":"hello","finish_reason":"stop"}]}`)
				}
				smu.Lock()
				sent, sentCT = body, ct
				smu.Unlock()
				return stack.Behaviour{Kind: "ok", Status: 200, Headers: [][2]string{{"Content-Type", ct}, {"X-Backend", name}}, Body: body}
			})
		case "body-reset":
			b.SetScript(func(_ int, sn *stack.Seen) stack.Behaviour {
				bh := anth.OKAnswer(name, sn)
				bh.Kind = "body-reset"
				bh.Chunked = false
				bh.K = len(bh.Body) / 2
				smu.Lock()
				sent, sentCT = bh.Body, bh.Headers[0][1]
				smu.Unlock()
				return bh
			})
		default: // none, no-endpoints, unknown-model, bad-request: a healthy backend
			b.SetScript(func(_ int, sn *stack.Seen) stack.Behaviour {
				bh := anth.OKAnswer(name, sn)
				smu.Lock()
				sent, sentCT = bh.Body, bh.Headers[0][1]
				smu.Unlock()
				return bh
			})
		}
	}
	if sc.Fault == "no-endpoints" {
		for _, b := range bes {
			s.SetStatus(b.Name, domain.StatusOffline)
		}
	}
	model := anth.Model
	if sc.Fault == "unknown-model" {
		model = "no-such-model"
	}
	var path string
	var body []byte
	switch sc.Route {
	case "proxy":
		path, body = "/olla/proxy/v1/chat/completions", anth.OpenAIBody(model, sc.Stream, sc.Salt)
	case "provider":
		path, body = "/olla/openai/v1/chat/completions", anth.OpenAIBody(model, sc.Stream, sc.Salt)
	default:
		path, body = "/olla/anthropic/v1/messages", anth.AnthropicBody(model, sc.Stream, sc.Salt)
	}
	if sc.Fault == "bad-request" {
		// a request Olla itself must reject: no max_tokens / no messages (Anthropic validation);
		// on the OpenAI routes Olla does not validate, the backend answers
		body = []byte(fmt.Sprintf(`{"model":%q,"stream":%v,"messages":[]}`, model, sc.Stream))
	}
	raw := stack.Request("POST", path, s.Addr, [][2]string{{"Content-Type", "application/json"}, {"anthropic-version", "2023-06-01"}, {"X-Verif-Token", sc.Salt}}, body, false)
	r := stack.Do(s.Addr, raw, 2*time.Second+time.Duration(sc.SlowMs)*time.Millisecond) // the wall-clock bound of the property (after the backend's own delay)
	obs.Err, obs.Status, obs.Ms = r.Err, r.Status, r.Ms
	obs.CT = anth.Header1(r, "Content-Type")
	obs.Mode = anth.Header1(r, "X-Olla-Mode")
	obs.BodyLen = len(r.Body)
	clientBody := r.Body
	time.Sleep(20 * time.Millisecond)
	var all []*stack.Seen
	for _, b := range bes {
		for _, x := range b.Taken() {
			if v := x.Header["X-Verif-Token"]; len(v) > 0 && v[0] == sc.Salt { // only this scenario's traffic
				all = append(all, x)
			}
		}
	}
	sort.Slice(all, func(i, j int) bool { return all[i].Seq < all[j].Seq })
	for _, x := range all {
		obs.Contacted = append(obs.Contacted, x.Backend)
		obs.Paths = append(obs.Paths, x.Path)
		obs.Shapes = append(obs.Shapes, anth.Shape(x.Body))
	}
	smu.Lock()
	sentCopy := append([]byte(nil), sent...)
	obs.SentCT = sentCT
	smu.Unlock()
	if len(clientBody) > 1<<20 || len(sentCopy) > 1<<20 {
		switch {
		case bytes.Equal(clientBody, sentCopy):
			obs.BigClass = "equal"
		case len(clientBody) > 0 && bytes.HasPrefix(sentCopy, clientBody):
			obs.BigClass = "prefix"
		default:
			obs.BigClass = "other"
		}
		head := func(b []byte) []byte {
			if len(b) > 2048 {
				return b[:2048]
			}
			return b
		}
		obs.BodyHex, obs.SentHex = hex.EncodeToString(head(clientBody)), hex.EncodeToString(head(sentCopy))
	} else {
		obs.BodyHex, obs.SentHex = hex.EncodeToString(clientBody), hex.EncodeToString(sentCopy)
	}
	for n, st := range s.Statuses() {
		if st == "offline" {
			obs.Offline = append(obs.Offline, n)
		}
	}
	sort.Strings(obs.Offline)
	return obs
}

func main() {
	tier := vlib.Tier()
	r := vlib.NewRng(vlib.Seed())
	c := vlib.OpenCases("cases.jsonl")
	var scs []*Scenario
	if rp := vlib.ReplayPath(); rp != "" {
		var rep struct {
			FailingCase struct {
				Scenario Scenario `json:"scenario"`
			} `json:"failing_case"`
		}
		b, _ := os.ReadFile(rp)
		json.Unmarshal(b, &rep)
		sc := rep.FailingCase.Scenario
		scs = append(scs, &sc)
	} else {
		routes := []string{"proxy", "provider", "anthropic", "anthropic-pt"}
		add := func(sc Scenario) {
			sc.Salt = fmt.Sprintf("s%d", r.Intn(1000000))
			scs = append(scs, &sc)
		}
		for _, engine := range []string{"sherpa", "olla"} {
			for _, route := range routes {
				for _, stream := range []bool{false, true} {
					// the witness of the pinned-tree defect first: streaming translation, the only backend resets
					for _, fault := range []string{"reset0", "refuse", "close0", "garbage", "no-endpoints", "unknown-model", "malformed", "none", "bad-request", "body-reset"} {
						for _, n := range []int{1, 2} {
							if n == 2 && (fault == "none" || fault == "bad-request" || fault == "body-reset") && tier != "thorough" {
								continue
							}
							add(Scenario{Fault: fault, Route: route, Stream: stream, Engine: engine, N: n, Status: 200})
						}
					}
					add(Scenario{Fault: "mixed", Route: route, Stream: stream, Engine: engine, N: 2, Status: 200})
					add(Scenario{Fault: "mixed", Route: route, Stream: stream, Engine: engine, N: 3, Status: 200})
					// the judged request is the breaker's recovery probe (olla engine): the backend's own answer is the client's
					if engine == "olla" {
						for _, st := range []int{503, 500, 429, 404} {
							f := "b5xx"
							if st < 500 {
								f = "b4xx"
							}
							add(Scenario{Fault: f, Route: route, Stream: stream, Engine: engine, N: 1, Status: st, ErrBody: "json", HalfOpen: true})
						}
						add(Scenario{Fault: "none", Route: route, Stream: stream, Engine: engine, N: 1, Status: 200, HalfOpen: true})
					}
					// the failures that are decided by routing, under the routing strategies an operator may configure
					for _, strat := range []string{"optimistic-all", "discovery-all", "optimistic-none", "discovery-compatible_only"} {
						for _, fault := range []string{"no-endpoints", "unknown-model", "refuse"} {
							if tier == "thorough" || r.Chance(1, 2) {
								add(Scenario{Fault: fault, Route: route, Stream: stream, Engine: engine, N: 1 + r.Intn(2), Status: 200, Strategy: strat})
							}
						}
					}
					statuses4 := []int{400, 404, 429}
					statuses5 := []int{500, 503}
					if tier == "thorough" {
						statuses4 = []int{400, 401, 403, 404, 413, 422, 429}
						statuses5 = []int{500, 501, 502, 503, 504}
					}
					if route == "anthropic" { // failures that only become known after a long silence of the backend
						add(Scenario{Fault: "close0", Route: route, Stream: stream, Engine: engine, N: 1, Status: 200, SlowMs: 16500})
						add(Scenario{Fault: "b5xx", Route: route, Stream: stream, Engine: engine, N: 1, Status: 503, ErrBody: "json", SlowMs: 16500})
					}
					for _, shape := range []string{"emptyobj", "nochoices", "error200", "legacy"} {
						add(Scenario{Fault: "malformed", Route: route, Stream: stream, Engine: engine, N: 1, Status: 200, ErrBody: shape})
					}
					add(Scenario{Fault: "b5xx", Route: route, Stream: stream, Engine: engine, N: 1, Status: 500, ErrBody: "big"})
					add(Scenario{Fault: "b4xx", Route: route, Stream: stream, Engine: engine, N: 1, Status: 429, ErrBody: "big"})
					add(Scenario{Fault: "b4xx", Route: route, Stream: stream, Engine: engine, N: 1, Status: 422, ErrBody: "huge"})
					for _, eb := range []string{"json", "text"} {
						for _, st := range statuses4 {
							add(Scenario{Fault: "b4xx", Route: route, Stream: stream, Engine: engine, N: 1 + r.Intn(2), Status: st, ErrBody: eb})
						}
						for _, st := range statuses5 {
							add(Scenario{Fault: "b5xx", Route: route, Stream: stream, Engine: engine, N: 1 + r.Intn(2), Status: st, ErrBody: eb})
						}
					}
				}
			}
		}
	}
	out := make([]*Obs, len(scs))
	scen.ParallelMap(len(scs), 16, func(i int) {
		defer func() {
			if p := recover(); p != nil {
				out[i] = &Obs{StartErr: fmt.Sprint("panic: ", p)}
			}
		}()
		// environment noise (a stack that did not come up, a dial error) is retried; a timeout is a finding and is kept
		for try := 0; try < 3; try++ {
			out[i] = run(scs[i])
			if out[i].StartErr == "" && out[i].Err != "dial" {
				break
			}
		}
	})
	for i, sc := range scs {
		c.Count(sc.Engine + "." + sc.Route + "." + sc.Fault)
		c.Emit(map[string]any{"kind": "c05", "scenario": sc, "impl": out[i]})
	}
	c.Close(map[string]any{"exhaustive": true, "exhaustive_note": "fault {refuse, reset0, close0, garbage, mixed, no-endpoints, unknown-model, malformed, backend 4xx x{400,404,429}, backend 5xx x{500,503} (json and text error bodies), none, bad-request, body-reset} x route {proxy, provider, anthropic translation, anthropic passthrough} x stream x engine {sherpa, olla}, 1 and 2 endpoints for the failure kinds (more statuses and n=2 everywhere in thorough)"})
}
