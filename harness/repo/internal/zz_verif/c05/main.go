//go:build verif

// c05: every way a request can fail x route family x stream flag x engine through the unchanged
// production stack. One fresh stack per scenario (kind c05), and the same scenarios again as requests
// of histories on long-lived stacks (kind c05hist, hist.go); the client is a raw socket with a 2 s
// wall-clock bound; what is recorded is the status, Content-Type and body the client saw, how long it
// took, and which backends were contacted.
package main

import (
	"github.com/thushan/olla/internal/adapter/proxy/olla"
	"bytes"
	"strings"
	"encoding/hex"
	"encoding/json"
	"fmt"
	"os"
	"runtime"
	"runtime/debug"
	"sort"
	"sync"
	"time"

	"github.com/thushan/olla/internal/config"
	"github.com/thushan/olla/internal/core/domain"
	"github.com/thushan/olla/internal/zz_verif/anth"
	"github.com/thushan/olla/internal/zz_verif/scen"
	"github.com/thushan/olla/internal/zz_verif/stack"
	"github.com/thushan/olla/internal/zz_verif/vlib"
)

// Scenario is the whole input of one case.
type Scenario struct {
	Fault   string `json:"fault"`    // none | no-endpoints | unknown-model | refuse | reset0 | close0 | garbage | mixed | b4xx | b5xx | malformed | body-reset | bad-request
	Route   string `json:"route"`    // proxy | provider | anthropic (translation: openai-type endpoints) | anthropic-pt (passthrough: vllm-type endpoints)
	Stream  bool   `json:"stream"`
	Engine  string `json:"engine"`
	N       int    `json:"n"`        // endpoints
	Status  int    `json:"status"`   // backend status for b4xx / b5xx (200 otherwise)
	ErrBody string `json:"err_body"` // json | text : body kind of a backend error answer
	Salt    string `json:"salt"`
	SlowMs  int    `json:"slow_ms,omitempty"` // the backend only fails / answers after this long (the failure becomes known late)
	// Strategy: "" = default (strict); "<type>-<fallback>" = model_registry.routing_strategy of that type (optimistic | discovery,
	// the latter with discovery_refresh_on_miss) and fallback_behavior (all | none | compatible_only). Judged by the
	// property's clauses on what the client saw; the handler model is not consulted for these
	Strategy string `json:"strategy,omitempty"`
	// HalfOpen (olla engine): every endpoint's breaker was opened by a history of failed exchanges and its window has
	// elapsed, so the judged request is the recovery probe
	HalfOpen bool `json:"half_open,omitempty"`
	// OK: what a well-formed OpenAI-dialect completion of the backend carries: "" three short text pieces | "tools" a tool
	// call | "long" one text piece of ~108 KiB (a single SSE line longer than any initial line buffer)
	OK string `json:"ok_shape,omitempty"`
	// Down: endpoints (by index) that are offline in the repository when the request arrives (histories only)
	Down []int `json:"down,omitempty"`
}

type Obs struct {
	StartErr  string   `json:"start_err,omitempty"`
	Err       string   `json:"err"`
	Status    int      `json:"status"`
	CT        string   `json:"content_type"`
	BodyHex   string   `json:"body_hex"`
	// BigClass is set when the client's or the backend's body is over 1 MiB: the byte comparison is made here
	// ("equal" | "prefix" | "other") and only the heads of both bodies travel to the driver
	BigClass string `json:"big_class,omitempty"`
	BodyLen  int    `json:"body_len"`
	Mode      string   `json:"mode"` // X-Olla-Mode
	Ms        int64    `json:"ms"`
	Contacted []string `json:"contacted"`   // backends that received the request, in order
	Paths     []string `json:"paths"`       // path each of them saw
	Shapes    []string `json:"shapes"`      // anthropic | openai | other
	SentHex   string   `json:"sent_hex"`    // response body the (last contacted) backend was scripted to send
	SentCT    string   `json:"sent_ct"`
	Answered  bool     `json:"answered,omitempty"` // a backend was scripted to answer this request (with SentHex, which may be empty)
	Offline   []string `json:"offline"`     // repository status offline after the request
}

func backendErrBody(kind string, status int) ([]byte, string) {
	if kind == "text" {
		return []byte(fmt.Sprintf("upstream says %d, sorry\n", status)), "text/plain; charset=utf-8"
	}
	if kind == "big" { // an error page far larger than any pipe/buffer size on the way
		return []byte(fmt.Sprintf("<html><body>%d ", status) + strings.Repeat("stack trace line\n", 16000) + "</body></html>"), "text/html"
	}
	if kind == "huge" { // a validation error that echoes a large prompt back: several MiB of JSON
		b, _ := json.Marshal(map[string]any{"detail": []any{map[string]any{"loc": []string{"body", "messages"}, "msg": "value is not a valid list", "input": strings.Repeat("lorem ipsum dolor sit amet ", 120000)}}})
		return b, "application/json"
	}
	b, _ := json.Marshal(map[string]any{"error": map[string]any{"message": fmt.Sprintf("backend refused with %d", status), "type": "backend_error", "code": "e" + fmt.Sprint(status)}})
	return b, "application/json"
}

// sentRec: what the (last contacted) backend was scripted to send for one request, found by the request's X-Verif-Token.
type sentRec struct {
	body     []byte
	ct       string
	answered bool
}

// rig is one production stack in front of its scripted backends. The single-request scenarios build one per case;
// a history (hist.go) keeps one for its whole length.
type rig struct {
	s      *stack.Stack
	bes    []*stack.Backend
	engine string
	typ    string
	smu    sync.Mutex
	sent   map[string]sentRec
	fails  int // upper bound of the failed round trips in a row any endpoint's engine breaker may have counted
}

func token(sn *stack.Seen) string {
	if sn != nil {
		if v := sn.Header["X-Verif-Token"]; len(v) > 0 {
			return v[0]
		}
	}
	return ""
}

func (g *rig) record(sn *stack.Seen, body []byte, ct string) {
	g.smu.Lock()
	g.sent[token(sn)] = sentRec{body: body, ct: ct, answered: true}
	g.smu.Unlock()
}

// newRig starts the stack: n endpoints of the given platform type with falling priorities.
func newRig(engine, typ string, n int, vary uint64, strategy string) (*rig, string) {
	g := &rig{engine: engine, typ: typ, sent: map[string]sentRec{}}
	var eps []stack.EP
	for i := 0; i < n; i++ {
		b := stack.NewBackend(string(rune('A' + i)))
		b.Listing = anth.OpenAIListing([]string{anth.Model, "other"})
		g.bes = append(g.bes, b)
		eps = append(eps, stack.EP{Name: b.Name, Type: typ, Priority: 300 - 100*i, Backend: b})
	}
	s, err := stack.Start(stack.Opts{Vary: vary, Engine: engine, Balancer: "priority", EPs: eps, ModelDiscovery: true, Mutate: func(cfg *config.Config) {
		cfg.Discovery.ModelDiscovery.Interval = time.Hour
		cfg.Translators.Anthropic.Enabled = true
		cfg.Translators.Anthropic.PassthroughEnabled = true
		if typ, fb, ok := strings.Cut(strategy, "-"); ok {
			cfg.ModelRegistry.RoutingStrategy.Type = typ
			cfg.ModelRegistry.RoutingStrategy.Options.FallbackBehavior = fb
			cfg.ModelRegistry.RoutingStrategy.Options.DiscoveryRefreshOnMiss = typ == "discovery"
			cfg.ModelRegistry.RoutingStrategy.Options.DiscoveryTimeout = time.Second
		}
	}})
	if err != nil {
		g.close()
		return nil, err.Error()
	}
	g.s = s
	if !anth.WaitCatalogued(s, g.bes, 2) {
		g.close()
		return nil, "model catalogue did not settle"
	}
	return g, ""
}

func (g *rig) close() {
	if g.s != nil {
		g.s.Stop()
	}
	for _, b := range g.bes {
		b.Close()
	}
}

// halfOpen (olla engine): every endpoint's breaker is opened by a history of failed exchanges and its window elapses.
func (g *rig) halfOpen() {
	s, bes := g.s, g.bes
	if svc, ok := s.Proxy.(*olla.Service); ok {
		for i, b := range bes {
			for j, o := range bes { // isolate endpoint i
				st := domain.StatusOffline
				if j == i {
					st = domain.StatusHealthy
				}
				s.SetStatus(o.Name, st)
			}
			b.SetBehaviour(stack.Behaviour{Kind: "close0"})
			for k := 0; k < 12; k++ {
				before := b.Count()
				stack.Do(s.Addr, stack.Request("POST", "/olla/proxy/v1/chat/completions", s.Addr, [][2]string{{"Content-Type", "application/json"}}, []byte(`{"prime":true}`), false), 2*time.Second)
				s.SetStatus(b.Name, domain.StatusHealthy)
				if b.Count() == before {
					break // the breaker no longer lets anything through: it is open
				}
			}
			b.Taken()
			olla.VerifRewindEndpointBreaker(svc, b.Name, 31*time.Second)
		}
		for _, o := range bes {
			s.SetStatus(o.Name, domain.StatusHealthy)
		}
	}
}

func malformedBody(shape string, stream bool) ([]byte, string) {
	ct := "application/json"
	if stream {
		ct = "text/event-stream"
	}
	body := []byte(`{"id":"chatcmpl-1","choices":[{"index":0,"message":{"role":"assist`)
	switch shape { // well-formed JSON of the wrong shape (or no JSON at all), answered with 200
	case "emptyobj":
		body = []byte(`{}`)
	case "nochoices":
		body = []byte(`{"id":"chatcmpl-1","object":"chat.completion","choices":[]}`)
	case "error200":
		body = []byte(`{"error":{"message":"model overloaded","type":"server_error"}}`)
	case "legacy":
		body = []byte(`{"id":"cmpl-1","object":"text_completion","choices":[{"index":0,"text":"hello","finish_reason":"stop"}]}`)
	case "completion": // a complete non-streamed chat completion, whatever was asked for (a backend that ignores "stream")
		body, ct = anth.OpenAICompletion("Z"), "application/json"
	case "html": // the page of a gateway in front of the backend, served with 200
		body, ct = []byte("<html>\n<head><title>Bad Gateway</title></head>\n<body>\n<h1>upstream unavailable</h1>\n<p>data source: none</p>\n</body>\n</html>\n"), "text/html; charset=utf-8"
	case "empty": // 200 and no body at all
		body = []byte{}
	}
	return body, ct
}

// okAnswer: the well-formed 200 answer of a healthy backend; `shape` varies what an OpenAI-dialect completion carries
// ("" = three short text pieces, "tools" = a tool call, "long" = one text piece far longer than any line buffer).
func okAnswer(name string, sn *stack.Seen, shape string) stack.Behaviour {
	bh := anth.OKAnswer(name, sn)
	if shape == "" || strings.HasSuffix(sn.Path, "/v1/messages") {
		return bh
	}
	stream := anth.WantsStream(sn.Body)
	js := func(v any) string { b, _ := json.Marshal(v); return string(b) }
	chunk := func(delta map[string]any, finish any) string {
		return "data: " + js(map[string]any{"id": "chatcmpl-2", "object": "chat.completion.chunk", "model": anth.Model,
			"choices": []any{map[string]any{"index": 0, "delta": delta, "finish_reason": finish}}}) + "\n\n"
	}
	switch shape {
	case "tools":
		if stream {
			bh.Body = []byte(chunk(map[string]any{"role": "assistant", "tool_calls": []any{map[string]any{"index": 0, "id": "call_" + name, "type": "function", "function": map[string]any{"name": "get_weather", "arguments": ""}}}}, nil) +
				chunk(map[string]any{"tool_calls": []any{map[string]any{"index": 0, "function": map[string]any{"arguments": `{"city":`}}}}, nil) +
				chunk(map[string]any{"tool_calls": []any{map[string]any{"index": 0, "function": map[string]any{"arguments": `"Oslo"}`}}}}, nil) +
				chunk(map[string]any{}, "tool_calls") + "data: [DONE]\n\n")
		} else {
			bh.Body = []byte(js(map[string]any{"id": "chatcmpl-2", "object": "chat.completion", "model": anth.Model,
				"choices": []any{map[string]any{"index": 0, "finish_reason": "tool_calls", "message": map[string]any{"role": "assistant", "content": nil,
					"tool_calls": []any{map[string]any{"id": "call_" + name, "type": "function", "function": map[string]any{"name": "get_weather", "arguments": `{"city":"Oslo"}`}}}}}},
				"usage": map[string]any{"prompt_tokens": 5, "completion_tokens": 9, "total_tokens": 14}}))
		}
	case "long":
		text := strings.Repeat("lorem ipsum dolor sit amet ", 4000) + name // ~108 KiB in one piece
		if stream {
			bh.Body = []byte(chunk(map[string]any{"role": "assistant", "content": text}, nil) + chunk(map[string]any{}, "stop") + "data: [DONE]\n\n")
		} else {
			bh.Body = []byte(js(map[string]any{"id": "chatcmpl-2", "object": "chat.completion", "model": anth.Model,
				"choices": []any{map[string]any{"index": 0, "finish_reason": "stop", "message": map[string]any{"role": "assistant", "content": text}}},
				"usage":   map[string]any{"prompt_tokens": 5, "completion_tokens": 9000, "total_tokens": 9005}}))
		}
	}
	return bh
}

// configure scripts the backends (and, for no-endpoints / down, the repository) for the scenario's fault.
func (g *rig) configure(sc *Scenario) {
	for i, b := range g.bes {
		name := b.Name
		kind := sc.Fault
		if kind == "mixed" {
			kind = []string{"refuse", "reset0", "close0"}[i%3]
		}
		switch kind {
		case "refuse":
			b.Refuse()
		case "reset0", "close0", "garbage":
			if sc.SlowMs > 0 && kind == "close0" {
				b.SetBehaviour(stack.Behaviour{Kind: "stall0", StallMs: sc.SlowMs}) // accepts the request, says nothing, closes late
			} else {
				b.SetBehaviour(stack.Behaviour{Kind: kind})
			}
		case "b4xx", "b5xx":
			body, ct := backendErrBody(sc.ErrBody, sc.Status)
			b.SetScript(func(_ int, sn *stack.Seen) stack.Behaviour {
				g.record(sn, body, ct)
				bh := stack.Behaviour{Kind: "ok", Status: sc.Status, Headers: [][2]string{{"Content-Type", ct}, {"X-Backend", name}}, Body: body}
				if sc.SlowMs > 0 {
					gate := make(chan struct{})
					time.AfterFunc(time.Duration(sc.SlowMs)*time.Millisecond, func() { close(gate) })
					bh.Gate = gate
				}
				return bh
			})
		case "malformed":
			b.SetScript(func(_ int, sn *stack.Seen) stack.Behaviour {
				body, ct := malformedBody(sc.ErrBody, anth.WantsStream(sn.Body))
				g.record(sn, body, ct)
				return stack.Behaviour{Kind: "ok", Status: 200, Headers: [][2]string{{"Content-Type", ct}, {"X-Backend", name}}, Body: body}
			})
		case "body-reset":
			b.SetScript(func(_ int, sn *stack.Seen) stack.Behaviour {
				bh := okAnswer(name, sn, sc.OK)
				bh.Kind = "body-reset"
				bh.Chunked = false
				bh.K = len(bh.Body) / 2
				g.record(sn, bh.Body, bh.Headers[0][1])
				return bh
			})
		default: // none, no-endpoints, unknown-model, bad-request: a healthy backend
			b.SetScript(func(_ int, sn *stack.Seen) stack.Behaviour {
				bh := okAnswer(name, sn, sc.OK)
				g.record(sn, bh.Body, bh.Headers[0][1])
				return bh
			})
		}
	}
	if sc.Fault == "no-endpoints" {
		for _, b := range g.bes {
			g.s.SetStatus(b.Name, domain.StatusOffline)
		}
	}
	for _, i := range sc.Down {
		if i < len(g.bes) {
			g.s.SetStatus(g.bes[i].Name, domain.StatusOffline)
		}
	}
}

func requestOf(sc *Scenario, addr string) []byte {
	model := anth.Model
	if sc.Fault == "unknown-model" {
		model = "no-such-model"
	}
	var path string
	var body []byte
	switch sc.Route {
	case "proxy":
		path, body = "/olla/proxy/v1/chat/completions", anth.OpenAIBody(model, sc.Stream, sc.Salt)
	case "provider":
		path, body = "/olla/openai/v1/chat/completions", anth.OpenAIBody(model, sc.Stream, sc.Salt)
	default:
		path, body = "/olla/anthropic/v1/messages", anth.AnthropicBody(model, sc.Stream, sc.Salt)
	}
	if sc.Fault == "bad-request" {
		// a request Olla itself must reject: no max_tokens / no messages (Anthropic validation);
		// on the OpenAI routes Olla does not validate, the backend answers
		body = []byte(fmt.Sprintf(`{"model":%q,"stream":%v,"messages":[]}`, model, sc.Stream))
	}
	return stack.Request("POST", path, addr, [][2]string{{"Content-Type", "application/json"}, {"anthropic-version", "2023-06-01"}, {"X-Verif-Token", sc.Salt}}, body, false)
}

// send: one client, a raw socket, bounded by the wall-clock bound of the property (after the backend's own delay).
func (g *rig) send(sc *Scenario) *stack.Resp {
	return stack.Do(g.s.Addr, requestOf(sc, g.s.Addr), 2*time.Second+time.Duration(sc.SlowMs)*time.Millisecond)
}

// collect turns the answers of the requests that were just made (one, or several that ran at once) into observations.
func (g *rig) collect(scs []*Scenario, rs []*stack.Resp) []*Obs {
	time.Sleep(20 * time.Millisecond)
	var seen []*stack.Seen
	for _, b := range g.bes {
		seen = append(seen, b.Taken()...)
	}
	sort.Slice(seen, func(i, j int) bool { return seen[i].Seq < seen[j].Seq })
	var offline []string
	for n, st := range g.s.Statuses() {
		if st == "offline" {
			offline = append(offline, n)
		}
	}
	sort.Strings(offline)
	out := make([]*Obs, len(scs))
	for k, sc := range scs {
		r := rs[k]
		obs := &Obs{}
		obs.Err, obs.Status, obs.Ms = r.Err, r.Status, r.Ms
		obs.CT = anth.Header1(r, "Content-Type")
		obs.Mode = anth.Header1(r, "X-Olla-Mode")
		obs.BodyLen = len(r.Body)
		clientBody := r.Body
		for _, x := range seen {
			if token(x) == sc.Salt { // only this scenario's traffic
				obs.Contacted = append(obs.Contacted, x.Backend)
				obs.Paths = append(obs.Paths, x.Path)
				obs.Shapes = append(obs.Shapes, anth.Shape(x.Body))
			}
		}
		g.smu.Lock()
		rec := g.sent[sc.Salt]
		delete(g.sent, sc.Salt)
		g.smu.Unlock()
		sentCopy := append([]byte(nil), rec.body...)
		obs.SentCT = rec.ct
		obs.Answered = rec.answered
		if len(clientBody) > 1<<20 || len(sentCopy) > 1<<20 {
			switch {
			case bytes.Equal(clientBody, sentCopy):
				obs.BigClass = "equal"
			case len(clientBody) > 0 && bytes.HasPrefix(sentCopy, clientBody):
				obs.BigClass = "prefix"
			default:
				obs.BigClass = "other"
			}
			head := func(b []byte) []byte {
				if len(b) > 2048 {
					return b[:2048]
				}
				return b
			}
			obs.BodyHex, obs.SentHex = hex.EncodeToString(head(clientBody)), hex.EncodeToString(head(sentCopy))
		} else {
			obs.BodyHex, obs.SentHex = hex.EncodeToString(clientBody), hex.EncodeToString(sentCopy)
		}
		obs.Offline = offline
		out[k] = obs
	}
	return out
}

// run: one scenario on a fresh stack.
func run(sc *Scenario) *Obs {
	typ := "openai"
	if sc.Route == "anthropic-pt" {
		typ = "vllm"
	}
	g, serr := newRig(sc.Engine, typ, sc.N, stack.VaryForJSON("c05", sc), sc.Strategy)
	if g == nil {
		return &Obs{StartErr: serr}
	}
	defer g.close()
	if sc.HalfOpen {
		g.halfOpen()
	}
	g.configure(sc)
	r := g.send(sc)
	return g.collect([]*Scenario{sc}, []*stack.Resp{r})[0]
}

func main() {
	tier := vlib.Tier()
	r := vlib.NewRng(vlib.Seed())
	c := vlib.OpenCases("cases.jsonl")
	var scs []*Scenario
	if rp := vlib.ReplayPath(); rp != "" {
		var rep struct {
			FailingCase struct {
				Scenario Scenario `json:"scenario"`
			} `json:"failing_case"`
		}
		b, _ := os.ReadFile(rp)
		json.Unmarshal(b, &rep)
		sc := rep.FailingCase.Scenario
		scs = append(scs, &sc)
	} else {
		routes := []string{"proxy", "provider", "anthropic", "anthropic-pt"}
		add := func(sc Scenario) {
			sc.Salt = fmt.Sprintf("s%d", r.Intn(1000000))
			scs = append(scs, &sc)
		}
		for _, engine := range []string{"sherpa", "olla"} {
			for _, route := range routes {
				for _, stream := range []bool{false, true} {
					// the witness of the pinned-tree defect first: streaming translation, the only backend resets
					for _, fault := range []string{"reset0", "refuse", "close0", "garbage", "no-endpoints", "unknown-model", "malformed", "none", "bad-request", "body-reset"} {
						for _, n := range []int{1, 2} {
							if n == 2 && (fault == "none" || fault == "bad-request" || fault == "body-reset") && tier != "thorough" {
								continue
							}
							add(Scenario{Fault: fault, Route: route, Stream: stream, Engine: engine, N: n, Status: 200})
						}
					}
					add(Scenario{Fault: "mixed", Route: route, Stream: stream, Engine: engine, N: 2, Status: 200})
					add(Scenario{Fault: "mixed", Route: route, Stream: stream, Engine: engine, N: 3, Status: 200})
					// the judged request is the breaker's recovery probe (olla engine): the backend's own answer is the client's
					if engine == "olla" {
						for _, st := range []int{503, 500, 429, 404} {
							f := "b5xx"
							if st < 500 {
								f = "b4xx"
							}
							add(Scenario{Fault: f, Route: route, Stream: stream, Engine: engine, N: 1, Status: st, ErrBody: "json", HalfOpen: true})
						}
						add(Scenario{Fault: "none", Route: route, Stream: stream, Engine: engine, N: 1, Status: 200, HalfOpen: true})
					}
					// the failures that are decided by routing, under the routing strategies an operator may configure
					for _, strat := range []string{"optimistic-all", "discovery-all", "optimistic-none", "discovery-compatible_only"} {
						for _, fault := range []string{"no-endpoints", "unknown-model", "refuse"} {
							if tier == "thorough" || r.Chance(1, 2) {
								add(Scenario{Fault: fault, Route: route, Stream: stream, Engine: engine, N: 1 + r.Intn(2), Status: 200, Strategy: strat})
							}
						}
					}
					statuses4 := []int{400, 404, 429}
					statuses5 := []int{500, 503}
					if tier == "thorough" {
						statuses4 = []int{400, 401, 403, 404, 413, 422, 429}
						statuses5 = []int{500, 501, 502, 503, 504}
					}
					if route == "anthropic" { // failures that only become known after a long silence of the backend
						add(Scenario{Fault: "close0", Route: route, Stream: stream, Engine: engine, N: 1, Status: 200, SlowMs: 16500})
						add(Scenario{Fault: "b5xx", Route: route, Stream: stream, Engine: engine, N: 1, Status: 503, ErrBody: "json", SlowMs: 16500})
					}
					shapes := []string{"emptyobj", "nochoices", "error200", "legacy", "completion", "html"}
					if route == "anthropic" {
						shapes = append(shapes, "empty") // 200 and no body: only where Olla has to make the answer out of it
					}
					for _, shape := range shapes {
						add(Scenario{Fault: "malformed", Route: route, Stream: stream, Engine: engine, N: 1, Status: 200, ErrBody: shape})
					}
					for _, ok := range []string{"tools", "long"} { // other well-formed answers: a tool call, one very long line
						add(Scenario{Fault: "none", Route: route, Stream: stream, Engine: engine, N: 1, Status: 200, OK: ok})
					}
					add(Scenario{Fault: "b5xx", Route: route, Stream: stream, Engine: engine, N: 1, Status: 500, ErrBody: "big"})
					add(Scenario{Fault: "b4xx", Route: route, Stream: stream, Engine: engine, N: 1, Status: 429, ErrBody: "big"})
					add(Scenario{Fault: "b4xx", Route: route, Stream: stream, Engine: engine, N: 1, Status: 422, ErrBody: "huge"})
					for _, eb := range []string{"json", "text"} {
						for _, st := range statuses4 {
							add(Scenario{Fault: "b4xx", Route: route, Stream: stream, Engine: engine, N: 1 + r.Intn(2), Status: st, ErrBody: eb})
						}
						for _, st := range statuses5 {
							add(Scenario{Fault: "b5xx", Route: route, Stream: stream, Engine: engine, N: 1 + r.Intn(2), Status: st, ErrBody: eb})
						}
					}
				}
			}
		}
	}
	// histories: long-lived stacks taken through sequences of different scenarios (hist.go)
	var hists []*History
	if vlib.ReplayPath() == "" {
		hr := r.Fork()
		id := 0
		per, passes := 2, 1
		if tier == "thorough" {
			per, passes = 3, 2
		}
		for _, engine := range []string{"sherpa", "olla"} {
			for _, typ := range []string{"openai", "vllm"} {
				for k := 0; k < per; k++ {
					n := 2
					if k > 0 {
						n = 1 + hr.Intn(3)
					}
					hists = append(hists, genHistory(hr.Fork(), id, engine, typ, n, passes, tier))
					id++
				}
			}
		}
	}
	histGCs, histSecs := 0, 0.0
	out := make([]*Obs, len(scs))
	hout := make([][]map[string]any, len(hists))
	// the histories first, together with the scenarios that spend their time waiting for a slow backend; then the rest
	var first, rest []int
	for i, sc := range scs {
		if sc.SlowMs > 0 {
			first = append(first, i)
		} else {
			rest = append(rest, i)
		}
	}
	runOne := func(i int) {
		defer func() {
			if p := recover(); p != nil {
				out[i] = &Obs{StartErr: fmt.Sprint("panic: ", p)}
			}
		}()
		// environment noise (a stack that did not come up, a dial error) is retried; a timeout is a finding and is kept
		for try := 0; try < 3; try++ {
			out[i] = run(scs[i])
			if out[i].StartErr == "" && out[i].Err != "dial" {
				break
			}
		}
	}
	// While the histories run the process looks like a long-lived proxy on a small machine: one P and a collector that
	// only runs when the heap has grown a lot (or when a history asks for it). sync.Pool hands an object back only on the
	// P that released it and forgets everything after two collections, so on 16 Ps under the allocation rate of 700
	// stacks coming and going, what one request left in a pooled object would rarely meet the next request.
	if len(hists) > 0 {
		procs := runtime.GOMAXPROCS(1)
		var ms0, ms1 runtime.MemStats
		runtime.ReadMemStats(&ms0)
		t0 := time.Now()
		var hmu sync.Mutex
		gcp := debug.SetGCPercent(-1)
		lim := debug.SetMemoryLimit(1536 << 20)
		scen.ParallelMap(len(hists)+len(first), len(hists)+len(first), func(i int) {
			if i < len(hists) {
				hout[i] = runHistory(hists[i])
				hmu.Lock()
				if d := time.Since(t0).Seconds(); d > histSecs {
					histSecs = d
				}
				hmu.Unlock()
			} else {
				runOne(first[i-len(hists)])
			}
		})
		runtime.ReadMemStats(&ms1)
		histGCs = int(ms1.NumGC - ms0.NumGC)
		debug.SetMemoryLimit(lim)
		debug.SetGCPercent(gcp)
		runtime.GOMAXPROCS(procs)
	} else {
		rest = append(first, rest...)
	}
	scen.ParallelMap(len(rest), 16, func(i int) { runOne(rest[i]) })
	for i, sc := range scs {
		c.Count(sc.Engine + "." + sc.Route + "." + sc.Fault)
		c.Emit(map[string]any{"kind": "c05", "scenario": sc, "impl": out[i]})
	}
	for i, h := range hists {
		for _, m := range hout[i] {
			c.Count("history." + h.Engine + "." + h.Type)
			c.Emit(m)
		}
	}
	c.Close(map[string]any{"histories": len(hists), "gc_cycles_while_histories_ran": histGCs, "histories_seconds": histSecs, "exhaustive": true, "exhaustive_note": "fault {refuse, reset0, close0, garbage, mixed, no-endpoints, unknown-model, malformed, backend 4xx x{400,404,429}, backend 5xx x{500,503} (json and text error bodies), none, bad-request, body-reset} x route {proxy, provider, anthropic translation, anthropic passthrough} x stream x engine {sherpa, olla}, 1 and 2 endpoints for the failure kinds (more statuses and n=2 everywhere in thorough); the histories (kind c05hist) are sampled: every such scenario at least once per long-lived stack, in a seeded random order"})
}
