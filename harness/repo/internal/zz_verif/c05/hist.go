//go:build verif

// Histories: ONE production stack (one translator, one engine, one set of pools, breakers, recorders) is taken through
// a long sequence of DIFFERENT scenarios — the same scenarios the single-request cases run on a fresh stack each — and
// every request is judged exactly as there (same observation, same model, same clauses). What differs from request to
// request: the fault, the route family, the stream flag, the backend's status / error body / answer shape and size,
// which endpoints are offline; in between: endpoints that a failed request marked offline recover, clients that went
// away in the middle of a stream, several different requests at once, the engine's clean-up pass after a simulated
// idle span, garbage collections (which empty sync.Pools). Everything is drawn from the check's seeded PRNG.
package main

import (
	"fmt"
	"net"
	"runtime"
	"strings"
	"sync"
	"time"

	"github.com/thushan/olla/internal/adapter/proxy/olla"
	"github.com/thushan/olla/internal/core/domain"
	"github.com/thushan/olla/internal/zz_verif/anth"
	"github.com/thushan/olla/internal/zz_verif/stack"
	"github.com/thushan/olla/internal/zz_verif/vlib"
)

// HStep is one position of a history: what happens in between (Ops), then one request — or several different ones
// at once (a burst: one backend set-up, different routes / stream flags).
type HStep struct {
	Ops []string    `json:"ops,omitempty"` // gone:<route>:<stream> | gc | cleanup | idle
	Scs []*Scenario `json:"scs"`
}

type History struct {
	ID     int      `json:"id"`
	Engine string   `json:"engine"`
	Type   string   `json:"type"` // platform type of the endpoints: openai (Anthropic requests are translated) | vllm (passed through)
	N      int      `json:"n"`
	Vary   uint64   `json:"vary,omitempty"`
	Steps  []*HStep `json:"-"`
}

type faultSpec struct {
	Fault   string
	Status  int
	ErrBody string
	OK      string
}

// routesOf: the route families a stack of this endpoint type serves.
func routesOf(typ string) []string {
	if typ == "vllm" {
		return []string{"anthropic-pt", "proxy"}
	}
	return []string{"anthropic", "proxy", "provider"}
}

// burstable: faults that leave neither the repository nor a breaker changed, so that requests running at once do not
// influence each other's routing (each is then judged like a request on its own).
func burstable(f string) bool {
	switch f {
	case "none", "b4xx", "b5xx", "malformed", "bad-request", "unknown-model":
		return true
	}
	return false
}

func describe(sc *Scenario) string {
	s := fmt.Sprintf("%s stream=%v %s", sc.Route, sc.Stream, sc.Fault)
	if sc.Fault == "b4xx" || sc.Fault == "b5xx" {
		s += fmt.Sprintf(" %d %s", sc.Status, sc.ErrBody)
	} else if sc.ErrBody != "" {
		s += " " + sc.ErrBody
	}
	if sc.OK != "" {
		s += " answer=" + sc.OK
	}
	if len(sc.Down) > 0 {
		s += fmt.Sprint(" down=", sc.Down)
	}
	return s
}

// genHistory: a deck with every (route, stream, fault variant) of the stack at least once, shuffled; `passes` decks in
// a row (each shuffled on its own, so that a pair of scenarios occurs in both orders over the passes).
func genHistory(r *vlib.Rng, id int, engine, typ string, n, passes int, tier string) *History {
	h := &History{ID: id, Engine: engine, Type: typ, N: n}
	if r.Bool() {
		h.Vary = stack.VaryFor("c05hist", id, engine, typ, n)
	}
	s4 := []int{400, 401, 403, 404, 413, 422, 429}
	s5 := []int{500, 501, 502, 503, 504}
	salt := 0
	for p := 0; p < passes; p++ {
		var deck []*Scenario
		for _, route := range routesOf(typ) {
			for _, stream := range []bool{false, true} {
				specs := []faultSpec{
					{Fault: "none"}, {Fault: "none", OK: "tools"}, {Fault: "none", OK: "long"}, {Fault: "none"},
					{Fault: "refuse"}, {Fault: "reset0"}, {Fault: "close0"}, {Fault: "garbage"}, {Fault: "mixed"},
					{Fault: "no-endpoints"}, {Fault: "unknown-model"}, {Fault: "bad-request"},
					{Fault: "body-reset", OK: vlib.Pick(r, []string{"", "tools", "long"})},
					{Fault: "b4xx", Status: vlib.Pick(r, s4), ErrBody: "json"}, {Fault: "b4xx", Status: vlib.Pick(r, s4), ErrBody: "text"},
					{Fault: "b5xx", Status: vlib.Pick(r, s5), ErrBody: "json"}, {Fault: "b5xx", Status: vlib.Pick(r, s5), ErrBody: "text"},
					{Fault: vlib.Pick(r, []string{"b4xx", "b5xx"}), Status: vlib.Pick(r, []int{429, 500, 503}), ErrBody: "big"},
				}
				for _, shape := range []string{"", "emptyobj", "nochoices", "error200", "legacy", "completion", "html"} {
					specs = append(specs, faultSpec{Fault: "malformed", ErrBody: shape})
				}
				if route == "anthropic" {
					// 200 and no body at all: on the translating route there is nothing to make a completion of;
					// on the relaying routes an empty 200 relayed as such is the backend's own answer
					specs = append(specs, faultSpec{Fault: "malformed", ErrBody: "empty"})
				}
				if tier == "thorough" && p == 0 {
					specs = append(specs, faultSpec{Fault: "b4xx", Status: 422, ErrBody: "huge"})
				}
				for _, sp := range specs {
					st := sp.Status
					if st == 0 {
						st = 200
					}
					sc := &Scenario{Fault: sp.Fault, Route: route, Stream: stream, Engine: engine, N: n, Status: st, ErrBody: sp.ErrBody, OK: sp.OK}
					// an endpoint that is offline when the request arrives (the others carry the scenario)
					if n >= 2 && sp.Fault != "no-endpoints" && r.Chance(1, 6) {
						sc.Down = []int{r.Intn(n)}
					}
					deck = append(deck, sc)
				}
			}
		}
		for i := len(deck) - 1; i > 0; i-- {
			j := r.Intn(i + 1)
			deck[i], deck[j] = deck[j], deck[i]
		}
		for i := 0; i < len(deck); i++ {
			base := deck[i]
			st := &HStep{Scs: []*Scenario{base}}
			// a burst: up to three more requests run at the same time as this one, against this one's backend set-up, each
			// with a route / stream flag of its own (and, where the request itself decides the outcome — a request Olla
			// rejects, a model nobody has — possibly that)
			if burstable(base.Fault) && len(base.Down) == 0 && base.ErrBody != "big" && base.ErrBody != "huge" && r.Chance(1, 5) {
				for k := 1 + r.Intn(3); k > 0; k-- {
					cp := *base
					cp.Route, cp.Stream = vlib.Pick(r, routesOf(typ)), r.Bool()
					if base.Fault == "none" || base.Fault == "bad-request" || base.Fault == "unknown-model" {
						cp.Fault = vlib.Pick(r, []string{"none", "none", "bad-request", "unknown-model"})
					}
					if cp.ErrBody == "empty" && cp.Route != "anthropic" {
						continue
					}
					st.Scs = append(st.Scs, &cp)
				}
			}
			switch r.Intn(14) {
			case 0, 1:
				st.Ops = append(st.Ops, fmt.Sprintf("gone:%s:%v", vlib.Pick(r, routesOf(typ)), r.Chance(3, 4)))
			case 2:
				st.Ops = append(st.Ops, "cleanup")
			case 3:
				if r.Chance(1, 8) { // rare (collections are process-wide: every history sees those of the others): one ages what the pools hold, two in a row empty them
					st.Ops = append(st.Ops, "gc")
				}
			}
			for _, sc := range st.Scs {
				salt++
				sc.Salt = fmt.Sprintf("h%d-%d-%d", id, salt, r.Intn(1000000))
			}
			h.Steps = append(h.Steps, st)
		}
	}
	return h
}

// recover: what the health checker's next successful probe does — every endpoint is routable again, every backend
// listens again. The olla engine's per-endpoint breaker counts failed round trips in a row and opens at 5 (then the
// backend is not contacted at all, which is C08's subject): before the count can get there a successful round trip
// is recorded on the real breaker, as any answered request does.
func (g *rig) recover(next []*Scenario) {
	for _, b := range g.bes {
		b.Listen()
		g.s.SetStatus(b.Name, domain.StatusHealthy)
	}
	if g.fails >= 3 {
		if svc, ok := g.s.Proxy.(*olla.Service); ok {
			for _, b := range g.bes {
				svc.GetCircuitBreaker(b.Name).RecordSuccess()
			}
		}
		g.fails = 0
	}
	for _, sc := range next {
		switch sc.Fault {
		case "refuse", "reset0", "close0", "garbage", "mixed":
			g.fails++
		}
	}
}

// settle waits (event-driven, generous) until no backend is still answering a request and the collector's gauges stand still.
func (g *rig) settle() bool {
	deadline := time.Now().Add(15 * time.Second)
	for time.Now().Before(deadline) {
		open := int64(0)
		for _, b := range g.bes {
			open += b.Busy()
		}
		if open == 0 {
			stack.Quiesce(func() string { return fmt.Sprint(g.s.Stats.GetConnectionStats()) })
			return true
		}
		time.Sleep(5 * time.Millisecond)
	}
	return false
}

// goneClient: a client that reads the beginning of an answer and goes away while the backend is still sending.
func (g *rig) goneClient(route string, stream bool, salt string) bool {
	for _, b := range g.bes {
		name := b.Name
		b.SetScript(func(_ int, sn *stack.Seen) stack.Behaviour {
			bh := okAnswer(name, sn, "")
			bh.Kind = "pause"
			bh.K = len(bh.Body) / 2
			bh.StallMs = 120
			bh.ChunkSz = 40
			return bh
		})
	}
	sc := &Scenario{Fault: "none", Route: route, Stream: stream, Salt: salt}
	c, err := net.DialTimeout("tcp", g.s.Addr, 2*time.Second)
	if err == nil {
		c.SetDeadline(time.Now().Add(2 * time.Second))
		c.Write(requestOf(sc, g.s.Addr))
		buf := make([]byte, 256)
		c.Read(buf) // the status line and the first bytes (or nothing within the deadline: the client leaves anyway)
		if tc, ok := c.(*net.TCPConn); ok {
			tc.SetLinger(0)
		}
		c.Close()
	}
	ok := g.settle()
	for _, b := range g.bes {
		b.Taken()
	}
	g.smu.Lock()
	delete(g.sent, salt)
	g.smu.Unlock()
	return ok
}

// runHistory returns the cases of the history, one per request, in order.
func runHistory(h *History) []map[string]any {
	stackDesc := map[string]any{"id": h.ID, "engine": h.Engine, "type": h.Type, "n": h.N, "vary": h.Vary}
	var g *rig
	var serr string
	for try := 0; try < 3 && g == nil; try++ {
		g, serr = newRig(h.Engine, h.Type, h.N, h.Vary, "")
	}
	if g == nil {
		return []map[string]any{{"kind": "c05hist", "hist": stackDesc, "step": 0, "before": []string{}, "scenario": h.Steps[0].Scs[0], "impl": &Obs{StartErr: serr}}}
	}
	defer g.close()
	var cases []map[string]any
	before := []string{}
	for si, st := range h.Steps {
		vlib.Breadcrumb(map[string]any{"kind": "c05hist", "hist": stackDesc, "step": si, "before": before, "now": st})
		g.recover(st.Scs)
		for _, op := range st.Ops {
			parts := strings.Split(op, ":")
			switch parts[0] {
			case "gc":
				runtime.GC()
			case "cleanup":
				if svc, ok := g.s.Proxy.(*olla.Service); ok {
					olla.VerifCleanupPassAfter(svc, 10*time.Minute)
				}
			case "gone":
				if len(parts) == 3 {
					if !g.goneClient(parts[1], parts[2] == "true", fmt.Sprintf("h%d-gone-%d", h.ID, si)) {
						// the stack did not come to rest in time: nothing that follows could be attributed; not judged
						return cases
					}
					g.recover(nil)
				}
			}
			before = append(before, "("+op+")")
		}
		g.configure(st.Scs[0])
		rs := make([]*stack.Resp, len(st.Scs))
		var wg sync.WaitGroup
		for k, sc := range st.Scs {
			wg.Add(1)
			go func(k int, sc *Scenario) {
				defer wg.Done()
				for try := 0; try < 3; try++ {
					rs[k] = g.send(sc)
					if rs[k].Err != "dial" {
						break
					}
				}
			}(k, sc)
		}
		wg.Wait()
		obs := g.collect(st.Scs, rs)
		snapshot := append([]string(nil), before...)
		for k, sc := range st.Scs {
			m := map[string]any{"kind": "c05hist", "hist": stackDesc, "step": si, "before": snapshot, "scenario": sc, "impl": obs[k]}
			if len(st.Scs) > 1 {
				var others []string
				for j, o := range st.Scs {
					if j != k {
						others = append(others, describe(o))
					}
				}
				m["at_once_with"] = others
			}
			cases = append(cases, m)
		}
		for _, sc := range st.Scs {
			d := describe(sc)
			if len(st.Scs) > 1 {
				d = "[at once] " + d
			}
			before = append(before, d)
		}
		if !g.settle() {
			return cases
		}
	}
	return cases
}

var _ = anth.Model
