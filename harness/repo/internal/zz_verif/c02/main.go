//go:build verif

// c02: every backend fault point x endpoint count 1..3 x engine x profile through the
// production stack; the client transcript is recorded byte for byte.
package main

import (
	"github.com/thushan/olla/internal/zz_verif/soak"
	"bytes"
	"encoding/json"
	"github.com/thushan/olla/internal/config"
	"github.com/thushan/olla/internal/zz_verif/anth"
	"github.com/thushan/olla/internal/zz_verif/stack"
	"os"
	"sync"
	"time"

	"github.com/thushan/olla/internal/zz_verif/scen"
	"github.com/thushan/olla/internal/zz_verif/vlib"
)

var names = []string{"A", "B", "C"}
var prios = []int{300, 200, 100}

func mkEP(i int, kind string, r *vlib.Rng, chunked bool, ct string) scen.EPSpec {
	n := 40 + r.Intn(200)
	if r.Chance(1, 6) {
		n = 9000 + r.Intn(30000) // larger than the engines' 8 KiB stream buffer
	}
	k := 1 + r.Intn(n-1)
	e := scen.EPSpec{Name: names[i], Prio: prios[i]}
	switch kind {
	case "ok":
		e.Beh = scen.OkBeh(names[i], 200, n, chunked, ct)
	case "ok4xx":
		e.Beh = scen.OkBeh(names[i], 404, n, chunked, ct)
	case "ok5xx":
		e.Beh = scen.OkBeh(names[i], 503, n, chunked, ct)
	case "hdr-reset", "hdr-close":
		e.Beh = scen.FaultBeh(names[i], kind, n, 0, chunked, ct)
	default:
		e.Beh = scen.FaultBeh(names[i], kind, n, k, chunked, ct)
	}
	return e
}

// passthroughBreaks: POST /olla/anthropic/v1/messages, passthrough enabled; endpoint A (vllm: native Anthropic
// support, higher priority) sends status, headers and part of its native answer and then breaks off; endpoint B
// (sglang: no native support) would answer. What the client holds must be A's alone.
func passthroughBreaks(engine, kind string, stream bool) map[string]any {
	a, b := stack.NewBackend("A"), stack.NewBackend("B")
	defer a.Close()
	defer b.Close()
	a.SetScript(func(_ int, sn *stack.Seen) stack.Behaviour {
		bh := anth.OKAnswer("A", sn)
		bh.Kind, bh.K = kind, len(bh.Body)/2
		if kind == "truncchunk" {
			bh.Chunked, bh.ChunkSz = true, 16
		}
		return bh
	})
	b.SetScript(func(_ int, sn *stack.Seen) stack.Behaviour { return anth.OKAnswer("B", sn) })
	s, err := stack.Start(stack.Opts{Vary: stack.VaryFor("c02.xroute", engine, kind, stream), Engine: engine, Balancer: "priority", EPs: []stack.EP{{Name: "A", Type: "vllm", Priority: 300, Backend: a}, {Name: "B", Type: "sglang", Priority: 100, Backend: b}},
		Mutate: func(cfg *config.Config) {
			cfg.Translators.Anthropic.Enabled = true
			cfg.Translators.Anthropic.PassthroughEnabled = true
		}})
	if err != nil {
		return map[string]any{"start_err": err.Error()}
	}
	defer s.Stop()
	for _, be := range []*stack.Backend{a, b} {
		if err := anth.Register(s, be, []string{anth.Model}); err != nil {
			return map[string]any{"start_err": "register models: " + err.Error()}
		}
	}
	deadline := time.Now().Add(4 * time.Second)
	for !anth.Routable(s, []*stack.Backend{a, b}, anth.Model) {
		if time.Now().After(deadline) {
			return map[string]any{"start_err": "model catalogue did not settle"}
		}
		time.Sleep(5 * time.Millisecond)
	}
	a.Taken()
	b.Taken()
	r := stack.Do(s.Addr, stack.Request("POST", "/olla/anthropic/v1/messages", s.Addr, [][2]string{{"Content-Type", "application/json"}, {"anthropic-version", "2023-06-01"}}, anth.AnthropicBody(anth.Model, stream, "x"), false), 4*time.Second)
	time.Sleep(30 * time.Millisecond)
	return map[string]any{"status": r.Status, "err": r.Err, "body_len": len(r.Body), "a_requests": len(a.Taken()), "b_requests": len(b.Taken()),
		"body_has_b": bytes.Contains(r.Body, []byte("hello from B")), "mode": anth.Header1(r, "X-Olla-Mode")}
}

func main() {
	tier := vlib.Tier()
	r := vlib.NewRng(vlib.Seed())
	c := vlib.OpenCases("cases.jsonl")
	if os.Getenv("VERIF_C02_ONLY") == "history" { // development aid: only the histories
		histories(c, r.Fork(), tier)
		c.Close(nil)
		return
	}
	var scs []*scen.Scenario
	add := func(engine, profile string, kinds []string, chunked bool, ct string) {
		sc := &scen.Scenario{Engine: engine, Balancer: "priority", Profile: profile, Method: "POST", Path: "/olla/proxy/v1/chat/completions",
			ReqBody: `{"messages":[{"role":"user","content":"hi"}],"n":` + string(rune('0'+r.Intn(10))) + `}`}
		for i, k := range kinds {
			sc.EPs = append(sc.EPs, mkEP(i, k, r, chunked, ct))
		}
		scs = append(scs, sc)
	}
	if rp := vlib.ReplayPath(); rp != "" {
		var rep struct {
			FailingCase struct {
				Scenario scen.Scenario `json:"scenario"`
			} `json:"failing_case"`
		}
		b, _ := os.ReadFile(rp)
		json.Unmarshal(b, &rep)
		sc := rep.FailingCase.Scenario
		scs = append(scs, &sc)
	} else {
		all := append(append([]string{"ok", "ok4xx", "ok5xx"}, scen.PreKinds...), scen.PostKinds...)
		faults := append(append([]string{}, scen.PreKinds...), scen.PostKinds...)
		for _, engine := range []string{"sherpa", "olla"} {
			profiles := []string{"auto"}
			if tier == "thorough" {
				profiles = []string{"auto", "streaming", "standard"}
			}
			for _, profile := range profiles {
				// all singles
				for _, k := range all {
					add(engine, profile, []string{k}, r.Bool(), "application/json")
				}
				// all pairs (fault, anything) — the first endpoint is the preferred one
				for _, k1 := range faults {
					for _, k2 := range all {
						add(engine, profile, []string{k1, k2}, r.Bool(), vlib.Pick(r, []string{"application/json", "text/event-stream", "application/octet-stream"}))
					}
				}
				// triples: exhaustive in thorough, sampled in quick
				for _, k1 := range faults {
					for _, k2 := range faults {
						for _, k3 := range all {
							if tier == "thorough" || r.Chance(1, 12) {
								add(engine, profile, []string{k1, k2, k3}, r.Bool(), "application/json")
							}
						}
					}
				}
			}
		}
	}
	// backend answers WITHOUT a Content-Type header that break after the response has started: the handlers decide
	// "has the response started?" by looking at the Content-Type header, so this is the shape that could get an
	// Olla-made error text appended to the backend's bytes
	if vlib.ReplayPath() == "" {
		for _, engine := range []string{"sherpa", "olla"} {
			for _, k := range []string{"body-close", "shortcl", "truncchunk", "hdr-close", "body-reset", "ok"} {
				for _, two := range []bool{false, true} {
					sc := &scen.Scenario{Engine: engine, Balancer: "priority", Profile: "auto", Method: "POST", Path: "/olla/proxy/v1/chat/completions", ReqBody: `{"noct":true}`}
					e := mkEP(0, k, r, k == "truncchunk", "application/json")
					e.Beh.Headers = [][2]string{{"X-Backend", names[0]}} // no Content-Type
					sc.EPs = append(sc.EPs, e)
					if two {
						sc.EPs = append(sc.EPs, mkEP(1, "ok", r, false, "application/json"))
					}
					scs = append(scs, sc)
				}
			}
		}
	}
	// interim responses (103 Early Hints, 102 Processing) before the fault or the answer: an interim response is not the
	// response, and whether it is relayed or dropped, nothing of a failed attempt may reach the client before the attempt
	// that answers
	if vlib.ReplayPath() == "" {
		for _, engine := range []string{"sherpa", "olla"} {
			for _, k := range []string{"reset0", "close0", "hdr-reset", "body-reset", "ok", "ok5xx"} {
				for _, interim := range []int{103, 102} {
					for _, two := range []bool{false, true} {
						sc := &scen.Scenario{Engine: engine, Balancer: "priority", Profile: "auto", Method: "POST", Path: "/olla/proxy/v1/chat/completions", ReqBody: `{"interim":true}`}
						e := mkEP(0, k, r, r.Bool(), "application/json")
						e.Beh.Interim = interim
						sc.EPs = append(sc.EPs, e)
						if two {
							sc.EPs = append(sc.EPs, mkEP(1, "ok", r, false, "application/json"))
						}
						scs = append(scs, sc)
					}
				}
			}
		}
	}
	// olla engine: the preferred endpoint's breaker was opened by a request history and its timeout has elapsed, so this
	// request is the half-open probe; the probe dies at every fault point
	if vlib.ReplayPath() == "" {
		probeKinds := append(append([]string{"ok"}, scen.PreKinds...), scen.PostKinds...)
		for _, k := range probeKinds {
			if k == "dnsfail" {
				continue
			}
			for _, two := range []bool{false, true} {
				sc := &scen.Scenario{Engine: "olla", Balancer: "priority", Profile: "auto", Method: "POST", Path: "/olla/proxy/v1/chat/completions", ReqBody: `{"probe":true}`}
				e := mkEP(0, k, r, r.Bool(), "application/json")
				e.HalfOpen = true
				sc.EPs = append(sc.EPs, e)
				if two {
					sc.EPs = append(sc.EPs, mkEP(1, "ok", r, false, "application/json"))
				}
				scs = append(scs, sc)
			}
		}
	}
	// pauses: shorter than the read timeout (must not be cut; both engines) and between 1x and 2x the
	// read timeout followed by a resume (sherpa cuts the stream at the timeout; what was relayed stays a prefix)
	if vlib.ReplayPath() == "" {
		for _, engine := range []string{"sherpa", "olla"} {
			for _, ct := range []string{"text/event-stream", "application/json", "application/x-ndjson"} {
				for _, stall := range []int{60, 450} {
					for _, two := range []bool{false, true} {
						sc := &scen.Scenario{Engine: engine, Balancer: "priority", Profile: "auto", Method: "POST", Path: "/olla/proxy/v1/chat/completions",
							ReqBody: `{"stream":true}`, ReadTimeoutMs: 300}
						e := scen.EPSpec{Name: names[0], Prio: prios[0], Beh: scen.OkBeh(names[0], 200, 90+r.Intn(60), true, ct)}
						e.Beh.Kind, e.Beh.K, e.Beh.StallMs, e.Beh.ChunkSz = "pause", 20+r.Intn(10), stall, 15
						sc.EPs = append(sc.EPs, e)
						if two {
							sc.EPs = append(sc.EPs, mkEP(1, "ok", r, true, ct))
						}
						scs = append(scs, sc)
					}
				}
			}
		}
	}
	// stream buffer sizes other than the default: a response is the backend's bytes whatever size the engine reads in
	if vlib.ReplayPath() == "" {
		for i, sc := range scs {
			switch i % 3 {
			case 1:
				sc.StreamBufferSize = 16384
			case 2:
				sc.StreamBufferSize = vlib.Pick(r, []int{1024, 32768, 65536})
			}
		}
		for _, engine := range []string{"sherpa", "olla"} {
			for _, buf := range []int{16384, 65536} {
				for _, chunked := range []bool{false, true} {
					sc := &scen.Scenario{Engine: engine, Balancer: "priority", Profile: "auto", Method: "POST", Path: "/olla/proxy/v1/chat/completions", ReqBody: `{}`, StreamBufferSize: buf}
					e := scen.EPSpec{Name: names[0], Prio: prios[0], Beh: scen.OkBeh(names[0], 200, 45000, chunked, "application/json")}
					sc.EPs = append(sc.EPs, e)
					scs = append(scs, sc)
				}
			}
		}
	}
	if vlib.ReplayPath() == "" {
		for i, sc := range scs {
			sc.Vary = stack.VaryFor("c02", i)
		}
	}
	var mu sync.Mutex
	out := make([]*scen.Obs, len(scs))
	scen.ParallelMap(len(scs), 16, func(i int) {
		o := scen.Run(scs[i])
		mu.Lock()
		out[i] = o
		mu.Unlock()
	})
	for i, sc := range scs {
		kinds := ""
		for _, e := range sc.EPs {
			kinds += e.Beh.Kind + ","
		}
		c.Count(sc.Engine + "." + sc.Profile + ".n" + string(rune('0'+len(sc.EPs))))
		c.Emit(map[string]any{"kind": "retry", "scenario": sc, "impl": out[i]})
	}
	// the same on the Anthropic route in a mixed deployment (passthrough on): the endpoint with native Anthropic support
	// breaks off after it has begun to answer; the other endpoint (no native support) works
	for _, engine := range []string{"sherpa", "olla"} {
		for _, kind := range []string{"body-reset", "hdr-reset", "body-close", "truncchunk"} {
			for _, stream := range []bool{false, true} {
				c.Emit(map[string]any{"kind": "xroute", "engine": engine, "fault": kind, "stream": stream, "impl": passthroughBreaks(engine, kind, stream)})
				c.Count("xroute." + engine)
			}
		}
	}
	// long-lived engine instances: clients go away mid-stream, afterwards several clients stream at the same time, each
	// from a backend answer that carries its own nonce in every event: what a client holds is its own answer's bytes
	if vlib.ReplayPath() == "" {
		for _, engine := range []string{"sherpa", "olla"} {
			c.Emit(map[string]any{"kind": "soak", "engine": engine, "impl": soak.Run(engine, map[bool]int{false: 25, true: 250}[tier == "thorough"], 4, 8)})
			c.Count("soak." + engine)
		}
	}
	// a slow consumer: the backend never pauses, the client sits idle for several read timeouts in the middle of a body that
	// is far larger than the sockets buffer (slowreader.go)
	if vlib.ReplayPath() == "" {
		for _, engine := range []string{"sherpa", "olla"} {
			sizes := []int{24 << 20}
			if tier == "thorough" {
				sizes = []int{24 << 20, 48 << 20}
			}
			for i, size := range sizes {
				c.Emit(map[string]any{"kind": "slowreader", "engine": engine, "impl": slowReaderCase(engine, 400*time.Millisecond, 1500*time.Millisecond, size, i%2 == 1)})
				c.Count("slowreader." + engine)
			}
		}
	}
	// long-lived stacks taken through histories of different scenarios, every step judged by the property's predicate
	if vlib.ReplayPath() == "" {
		histories(c, r.Fork(), tier)
	}
	c.Close(map[string]any{"exhaustive": true, "exhaustive_note": "all single and pair assignments of the 13 attempt behaviours per engine (and per profile in thorough); triples exhaustive in thorough, sampled 1/12 in quick"})
}
