//go:build verif

// Histories: ONE long-lived production stack (one engine instance with its pools, transports, breakers, one
// repository, one collector) is taken through a long sequence of DIFFERENT single-request scenarios — the same
// vocabulary the fresh-stack scenarios of this check use (which endpoint answers or fails how, status, content
// type, framing, size), plus what only a history has: clients that go away mid-body, requests of different shapes
// that overlap, and between the rounds health transitions, recoveries, refusing backends, elapsed breaker timeouts,
// clean-up passes.  Every step is judged on its own by the property's predicate (Spec.C02.singleAttempt on what each
// backend was made to say for THIS request, which backends THIS request reached in which order, and what THIS client
// holds): whatever an earlier request left behind in the instance, a response is the work of one attempt.
package main

import (
	"bytes"
	"encoding/hex"
	"fmt"
	"net"
	"runtime"
	"sort"
	"strings"
	"sync"
	"time"

	"github.com/thushan/olla/internal/adapter/proxy/olla"
	"github.com/thushan/olla/internal/config"
	"github.com/thushan/olla/internal/core/domain"
	"github.com/thushan/olla/internal/zz_verif/stack"
	"github.com/thushan/olla/internal/zz_verif/vlib"
)

// hPlan: what one backend is made to say to one request (stack.Behaviour, with the body as unit x length so that a
// case stays small: the body is the unit repeated and cut to Len bytes).
type hPlan struct {
	Backend string      `json:"backend"`
	Kind    string      `json:"kind"`
	Status  int         `json:"status"`
	Headers [][2]string `json:"headers"`
	UnitHex string      `json:"unit_hex"`
	Len     int         `json:"len"`
	Chunked bool        `json:"chunked,omitempty"`
	ChunkSz int         `json:"chunk_sz,omitempty"`
	GapUs   int         `json:"gap_us,omitempty"`
	K       int         `json:"k,omitempty"`
	Keep    bool        `json:"keep_alive,omitempty"` // the backend keeps the connection for the proxy's next request
}

type hGot struct {
	Err      string      `json:"err"`
	Status   int         `json:"status"`
	Headers  [][2]string `json:"headers"`
	CT       string      `json:"content_type"`
	BodyHex  string      `json:"body_hex"`
	BodyLen  int         `json:"body_len"`
	Complete bool        `json:"complete"`
	Ms       int64       `json:"ms"`
}

type hStep struct {
	Idx        int      `json:"idx"`
	Round      int      `json:"round"`
	Nonce      string   `json:"nonce"`
	Role       string   `json:"role"` // stay: reads to the end | leave: goes away after LeaveAfter body bytes or LeaveMs
	LeaveAfter int      `json:"leave_after,omitempty"`
	LeaveMs    int      `json:"leave_ms,omitempty"`
	Rst        bool     `json:"rst,omitempty"` // the client that leaves resets the connection instead of closing it
	Method     string   `json:"method"`
	Path       string   `json:"path"`
	ReqBody    string   `json:"req_body"`
	Plan       []hPlan  `json:"plan"`
	Order      []string `json:"order"`   // backends this request reached, in arrival order
	Settled    bool     `json:"settled"` // the stack had finished with every request before the backends' records were read
	Got        hGot     `json:"got"`
	Desc       string   `json:"desc"`
	behaviours map[string]stack.Behaviour
}

type hSettings struct {
	ID       string `json:"id"`
	Engine   string `json:"engine"`
	Profile  string `json:"profile"`
	Balancer string `json:"balancer"`
	BufSize  int    `json:"stream_buffer_size"` // 0: product default
	Procs    int    `json:"gomaxprocs"`         // 0: as the process runs
	Rounds   int    `json:"rounds"`
	Vary     uint64 `json:"vary"`
}

var hNames = []string{"A", "B", "C"}

var hContentTypes = []string{"application/json", "text/event-stream", "application/x-ndjson", "text/plain; charset=utf-8",
	"application/octet-stream", "audio/mpeg", "image/png", "application/pdf", "audio/wav"}

var hPaths = []string{"/olla/proxy/v1/chat/completions", "/olla/proxy/v1/audio/speech", "/olla/proxy/v1/images/generations",
	"/olla/proxy/v1/embeddings", "/olla/proxy/v1/files/f-1/content", "/olla/proxy/api/generate"}

var hFaults = []string{"reset0", "close0", "garbage", "hdr-reset", "hdr-close", "body-reset", "body-close", "shortcl", "truncchunk"}

func cycle(unit []byte, n int) []byte {
	b := make([]byte, n)
	for i := range b {
		b[i] = unit[i%len(unit)]
	}
	return b
}

func sizeName(n int) string {
	switch {
	case n >= 1<<20:
		return fmt.Sprintf("%.1fMB", float64(n)/(1<<20))
	case n >= 1<<10:
		return fmt.Sprintf("%dKB", n>>10)
	}
	return fmt.Sprintf("%dB", n)
}

// genStep draws one request scenario.
func genStep(r *vlib.Rng, hid string, idx, round int, leave bool) *hStep {
	st := &hStep{Idx: idx, Round: round, Nonce: fmt.Sprintf("%s-%d", hid, idx), Role: "stay", behaviours: map[string]stack.Behaviour{}}
	st.Path = vlib.Pick(r, hPaths)
	st.Method = "POST"
	st.ReqBody = vlib.Pick(r, []string{`{"input":"x"}`, `{"stream":false,"input":"x"}`, `{"input":"x","n":2}`, `{"stream":true,"input":"x"}`})
	if strings.HasSuffix(st.Path, "/content") {
		st.Method, st.ReqBody = "GET", ""
	}
	// the answer: content type, framing, size and pace are one draw for the request, so that whichever endpoint ends up
	// answering does it in this shape (its bytes carry its own name and the request's nonce)
	ct := vlib.Pick(r, hContentTypes)
	chunked := r.Bool()
	var n int
	switch x := r.Intn(20); {
	case x < 11:
		n = 20 + r.Intn(400)
	case x < 17:
		n = 400 + r.Intn(6000)
	default:
		n = 9000 + r.Intn(31000)
	}
	if leave {
		st.Role = "leave"
		st.Rst = r.Bool()
		n = 2000 + r.Intn(30000)
		if r.Chance(3, 4) {
			n = 200_000 + r.Intn(1_800_000)
		}
		st.LeaveAfter = vlib.Pick(r, []int{1, 1, 100, 3000, 20000, 60000})
		st.LeaveMs = 3 + r.Intn(30)
	}
	piece := vlib.Pick(r, []int{0, 0, 31, 300, 1500, 8000})
	gap := vlib.Pick(r, []int{-1, -1, 50, 400})
	if !leave && piece > 0 && n/piece > 40 {
		gap = -1 // a client that stays is not kept waiting for more than a few gaps
	}
	keep := r.Chance(1, 3)
	status := 200
	if r.Chance(1, 6) {
		status = vlib.Pick(r, []int{201, 404, 429, 500, 503})
	}
	answered := false
	for _, name := range hNames {
		p := hPlan{Backend: name, Kind: "ok", Status: status, Len: n, Chunked: chunked,
			Headers: [][2]string{{"Content-Type", ct}, {"X-Backend", name}, {"X-Step", st.Nonce}}}
		unit := []byte(fmt.Sprintf("%s/%s:", name, st.Nonce))
		p.UnitHex = hex.EncodeToString(unit)
		if !answered && r.Chance(1, 4) {
			p.Kind = vlib.Pick(r, hFaults)
			if n > 1 {
				p.K = 1 + r.Intn(n-1)
			}
			if p.Kind == "truncchunk" {
				p.Chunked = true
			}
			if p.Kind == "shortcl" {
				p.Chunked = false
			}
			if p.Kind == "hdr-reset" || p.Kind == "hdr-close" {
				p.K = 0
			}
		} else {
			answered = true
			p.Keep = keep
			if piece > 0 {
				if chunked && gap < 0 {
					p.ChunkSz = piece // kind ok, chunked: one chunk per piece, as fast as the proxy takes them
				} else {
					p.Kind, p.K, p.ChunkSz, p.GapUs = "pause", min(piece, n), piece, gap
				}
			}
		}
		st.Plan = append(st.Plan, p)
		st.behaviours[name] = stack.Behaviour{Kind: p.Kind, Status: p.Status, Headers: p.Headers, Body: cycle(unit, n), Chunked: p.Chunked,
			ChunkSz: p.ChunkSz, GapUs: p.GapUs, K: p.K, KeepAlive: p.Keep}
	}
	var sb strings.Builder
	fmt.Fprintf(&sb, "%s", st.Role)
	if leave {
		fmt.Fprintf(&sb, "@%dB/%dms", st.LeaveAfter, st.LeaveMs)
	}
	fmt.Fprintf(&sb, " %s %s %s ->", st.Method, strings.TrimPrefix(st.Path, "/olla/proxy"), st.ReqBody)
	for _, p := range st.Plan {
		fr := "cl"
		if p.Chunked {
			fr = "chunked"
		}
		fmt.Fprintf(&sb, " %s:%s", p.Backend, p.Kind)
		if p.Kind != "ok" && p.Kind != "pause" {
			fmt.Fprintf(&sb, "@%d", p.K)
		}
		if p.Backend == "A" {
			fmt.Fprintf(&sb, " [%d %s %s %s pieces %d gap %dus keep-alive %v]", p.Status, ct, fr, sizeName(n), piece, gap, keep)
		}
	}
	st.Desc = sb.String()
	return st
}

// leaveClient sends the request, reads until `after` body bytes have arrived (or ms have passed), and goes away.
func leaveClient(addr string, raw []byte, after, ms int, reset bool) *stack.Resp {
	t0 := time.Now()
	r := &stack.Resp{Header: map[string][]string{}}
	defer func() { r.Ms = time.Since(t0).Milliseconds() }()
	c, err := net.DialTimeout("tcp", addr, 2*time.Second)
	if err != nil {
		r.Err = "dial"
		return r
	}
	if _, err := c.Write(raw); err != nil {
		c.Close()
		r.Err = "write"
		return r
	}
	c.SetReadDeadline(time.Now().Add(time.Duration(ms) * time.Millisecond))
	var buf bytes.Buffer
	tmp := make([]byte, 4096)
	hdrEnd := -1
	for {
		n, err := c.Read(tmp)
		buf.Write(tmp[:n])
		if hdrEnd < 0 {
			if i := bytes.Index(buf.Bytes(), []byte("\r\n\r\n")); i >= 0 {
				hdrEnd = i + 4
			}
		}
		if err != nil || (hdrEnd >= 0 && buf.Len()-hdrEnd >= after) {
			break
		}
	}
	if tc, ok := c.(*net.TCPConn); ok && reset {
		tc.SetLinger(0)
	}
	c.Close()
	r.Raw = buf.Bytes()
	stack.ParseResp(r, false)
	return r
}

func observe(r *stack.Resp) hGot {
	g := hGot{Err: r.Err, Status: r.Status, Headers: stack.EndToEnd(r.Header), BodyHex: hex.EncodeToString(r.Body), BodyLen: len(r.Body), Complete: r.Complete, Ms: r.Ms}
	if ct := r.Header["Content-Type"]; len(ct) > 0 {
		g.CT = ct[0]
	}
	return g
}

// runHistory: one long-lived stack, `rounds` rounds of overlapping requests. Returns the steps with what was observed
// and, per step, what the environment did before its round.
func runHistory(set hSettings, r *vlib.Rng, leaversMax, stayersMax int) (steps []*hStep, startErr string, served int) {
	if set.Procs > 0 {
		defer runtime.GOMAXPROCS(runtime.GOMAXPROCS(set.Procs))
	}
	backends := map[string]*stack.Backend{}
	var eps []stack.EP
	var plans sync.Map // nonce -> *hStep
	for i, name := range hNames {
		name := name
		b := stack.NewBackend(name)
		defer b.Close()
		b.SetScript(func(_ int, seen *stack.Seen) stack.Behaviour {
			if seen != nil {
				if n := seen.Header["X-Nonce"]; len(n) == 1 {
					if st, ok := plans.Load(n[0]); ok {
						return st.(*hStep).behaviours[name]
					}
				}
			}
			return stack.Behaviour{Kind: "ok", Status: 200, Headers: [][2]string{{"Content-Type", "application/json"}, {"X-Backend", name}}, Body: []byte(`{"unplanned":true}`)}
		})
		backends[name] = b
		eps = append(eps, stack.EP{Name: name, Type: "openai", Priority: 300 - 100*i, Backend: b})
	}
	s, err := stack.Start(stack.Opts{Vary: set.Vary, Engine: set.Engine, Balancer: set.Balancer, Profile: set.Profile, EPs: eps, Mutate: func(c *config.Config) {
		if set.BufSize > 0 {
			c.Proxy.StreamBufferSize = set.BufSize
		}
	}})
	if err != nil {
		return nil, err.Error(), 0
	}
	defer s.Stop()
	svc, _ := s.Proxy.(*olla.Service)
	idx := 0
	refusing := ""
	for round := 0; round < set.Rounds; round++ {
		// ---- what changes between the rounds
		var env []string
		if refusing != "" {
			backends[refusing].Listen()
			env = append(env, refusing+" listens again")
			refusing = ""
		}
		stats := s.Statuses()
		healthy := 0
		for _, name := range hNames {
			if stats[name] != string(domain.StatusHealthy) {
				if r.Chance(3, 4) { // recovery, as a passed health check would record it
					s.SetStatus(name, domain.StatusHealthy)
					env = append(env, name+" "+stats[name]+"->healthy")
					healthy++
				}
			} else {
				healthy++
			}
		}
		if r.Chance(1, 5) && healthy > 1 { // a health transition the other way
			name := vlib.Pick(r, hNames)
			to := vlib.Pick(r, []domain.EndpointStatus{domain.StatusUnhealthy, domain.StatusOffline, domain.StatusBusy})
			if s.Statuses()[name] == string(domain.StatusHealthy) {
				s.SetStatus(name, to)
				env = append(env, name+" healthy->"+string(to))
				healthy--
			}
		}
		if healthy == 0 {
			s.SetStatus("A", domain.StatusHealthy)
			env = append(env, "A ->healthy")
		}
		if r.Chance(1, 10) {
			refusing = vlib.Pick(r, hNames)
			backends[refusing].Refuse()
			env = append(env, refusing+" refuses connections")
		}
		if svc != nil && r.Chance(1, 3) { // the engine breakers' timeout elapses
			for _, name := range hNames {
				olla.VerifRewindEndpointBreaker(svc, name, 31*time.Second)
			}
			env = append(env, "31s pass for the engine's breakers")
		}
		if svc != nil && r.Chance(1, 5) {
			olla.VerifCleanupPassAfter(svc, 6*time.Minute)
			env = append(env, "clean-up pass after 6 idle minutes")
		}
		// ---- the round's requests
		nl, ns := r.Intn(leaversMax+1), 2+r.Intn(stayersMax-1)
		phased := r.Chance(2, 3)
		var leavers, stayers []*hStep
		for i := 0; i < nl; i++ {
			leavers = append(leavers, genStep(r, set.ID, idx, round, true))
			idx++
		}
		for i := 0; i < ns; i++ {
			stayers = append(stayers, genStep(r, set.ID, idx, round, false))
			idx++
		}
		envDesc := ""
		if len(env) > 0 {
			envDesc = "[before round " + fmt.Sprint(round) + ": " + strings.Join(env, "; ") + "] "
		}
		run := func(group []*hStep) {
			var wg sync.WaitGroup
			for _, st := range group {
				st := st
				plans.Store(st.Nonce, st)
				wg.Add(1)
				go func() {
					defer wg.Done()
					var body []byte
					if st.Method != "GET" {
						body = []byte(st.ReqBody)
					}
					raw := stack.Request(st.Method, st.Path, s.Addr, [][2]string{{"Content-Type", "application/json"}, {"X-Nonce", st.Nonce}}, body, false)
					var rp *stack.Resp
					if st.Role == "leave" {
						rp = leaveClient(s.Addr, raw, st.LeaveAfter, st.LeaveMs, st.Rst)
					} else {
						rp = stack.Do(s.Addr, raw, 20*time.Second)
					}
					st.Got = observe(rp)
				}()
			}
			wg.Wait()
		}
		if phased {
			run(leavers)
			// an endpoint a leaving client got marked as failed is readmitted, as a passed health check would: the
			// clients that follow are to be answered by a backend
			for _, name := range hNames {
				if st := s.Statuses()[name]; st == string(domain.StatusOffline) && name != refusing && r.Chance(3, 4) {
					s.SetStatus(name, domain.StatusHealthy)
				}
			}
			run(stayers)
		} else {
			run(append(append([]*hStep{}, leavers...), stayers...))
		}
		for i, st := range append(leavers, stayers...) {
			if i == 0 {
				st.Desc = envDesc + st.Desc
			}
			steps = append(steps, st)
		}
	}
	if refusing != "" {
		backends[refusing].Listen()
	}
	// every request is finished with (no backend is answering a request, and none has been for 50 ms) before the
	// backends' records are read: a dispatch that follows a client's departure would otherwise be missed
	settled := waitQuiet(15*time.Second, 50*time.Millisecond, func() bool {
		for _, b := range backends {
			if b.Busy() != 0 {
				return false
			}
		}
		return true
	})
	byNonce := map[string][]*stack.Seen{}
	for _, b := range backends {
		for _, sn := range b.Taken() {
			if n := sn.Header["X-Nonce"]; len(n) == 1 {
				byNonce[n[0]] = append(byNonce[n[0]], sn)
			}
		}
	}
	for _, st := range steps {
		seen := byNonce[st.Nonce]
		sort.Slice(seen, func(i, j int) bool { return seen[i].Seq < seen[j].Seq })
		st.Order = []string{}
		for _, sn := range seen {
			st.Order = append(st.Order, sn.Backend)
		}
		st.Settled = settled
		if st.Got.Status != 0 && len(st.Order) > 0 {
			served++
		}
	}
	return steps, "", served
}

// waitQuiet: cond has held without interruption for `hold` (polled every millisecond), within `max`.
func waitQuiet(max, hold time.Duration, cond func() bool) bool {
	deadline := time.Now().Add(max)
	var since time.Time
	for time.Now().Before(deadline) {
		if cond() {
			if since.IsZero() {
				since = time.Now()
			} else if time.Since(since) >= hold {
				return true
			}
		} else {
			since = time.Time{}
		}
		time.Sleep(time.Millisecond)
	}
	return false
}

// histories emits one case per step of every history.
func histories(c *vlib.Cases, r *vlib.Rng, tier string) {
	type spec struct {
		engine, profile string
	}
	var specs []spec
	rounds, leavers, stayers := 40, 5, 9
	if tier == "thorough" {
		rounds = 80
		for _, e := range []string{"olla", "sherpa"} {
			for _, p := range []string{"auto", "standard", "streaming", "auto", "standard"} {
				specs = append(specs, spec{e, p})
			}
		}
	} else {
		specs = []spec{{"olla", "auto"}, {"olla", "standard"}, {"sherpa", vlib.Pick(r, []string{"auto", "standard", "streaming"})},
			{"olla", vlib.Pick(r, []string{"auto", "standard", "streaming"})}}
	}
	for i, sp := range specs {
		set := hSettings{ID: fmt.Sprintf("h%d", i), Engine: sp.engine, Profile: sp.profile, Rounds: rounds,
			Balancer: vlib.Pick(r, []string{"priority", "priority", "round-robin", "least-connections"}),
			BufSize:  vlib.Pick(r, []int{0, 0, 1024, 4096, 16384, 65536}),
			Procs:    vlib.Pick(r, []int{0, 1, 2, 4}),
			Vary:     stack.VaryFor("c02.history", i)}
		hr := r.Fork()
		vlib.Breadcrumb(map[string]any{"kind": "history", "settings": set})
		steps, startErr, served := runHistory(set, hr, leavers, stayers)
		if startErr != "" {
			c.Emit(map[string]any{"kind": "history", "settings": set, "start_err": startErr})
			continue
		}
		c.Count(fmt.Sprintf("history.%s.%s", sp.engine, sp.profile))
		for k, st := range steps {
			var before []string
			for j := max(0, k-16); j < k; j++ {
				before = append(before, steps[j].Desc)
			}
			c.Emit(map[string]any{"kind": "history", "settings": set, "backends": hNames, "steps_in_history": len(steps), "served_in_history": served,
				"before": before, "step": st})
			c.Count("history.step." + st.Role)
		}
	}
}
