//go:build verif

package main

import (
	"bufio"
	"bytes"
	"crypto/sha256"
	"encoding/hex"
	"fmt"
	"io"
	"net"
	"net/http"
	"time"

	"github.com/thushan/olla/internal/config"
	"github.com/thushan/olla/internal/zz_verif/stack"
)

// slowReaderCase: the backend never pauses — it writes `size` bytes as fast as the proxy takes them; the CLIENT is slow:
// it reads the head of the answer, sits idle for several read timeouts, then reads on.  The body is far larger than what
// the sockets buffer, so the proxy's write to the client blocks for that long.  The one attempt completed: what the client
// holds in the end is that attempt's body, whole (C02: exactly the bytes one attempt produced).
func slowReaderCase(engine string, readTimeout, pause time.Duration, size int, chunked bool) map[string]any {
	b := stack.NewBackend("W")
	defer b.Close()
	body := bytes.Repeat([]byte("0123456789abcdef"), size/16)
	b.SetBehaviour(stack.Behaviour{Kind: "ok", Status: 200, Headers: [][2]string{{"Content-Type", "application/octet-stream"}}, Body: body, Chunked: chunked})
	s, err := stack.Start(stack.Opts{Engine: engine, Balancer: "priority", Profile: "auto", EPs: []stack.EP{{Name: "W", Type: "openai", Priority: 100, Backend: b}},
		Mutate: func(c *config.Config) { c.Proxy.ReadTimeout = readTimeout }})
	if err != nil {
		return map[string]any{"start_err": err.Error()}
	}
	defer s.Stop()
	conn, err := net.DialTimeout("tcp", s.Addr, 5*time.Second)
	if err != nil {
		return map[string]any{"start_err": "dial: " + err.Error()}
	}
	defer conn.Close()
	conn.Write(stack.Request("POST", "/olla/proxy/v1/files/content", s.Addr, [][2]string{{"Content-Type", "application/json"}}, []byte(`{}`), false))
	br := bufio.NewReaderSize(conn, 64<<10)
	conn.SetReadDeadline(time.Now().Add(pause + 60*time.Second))
	resp, err := http.ReadResponse(br, nil)
	if err != nil {
		return map[string]any{"engine": engine, "err": "head: " + err.Error()}
	}
	h := sha256.New()
	head := make([]byte, 32<<10)
	n0, _ := io.ReadFull(resp.Body, head)
	h.Write(head[:n0])
	time.Sleep(pause) // the slow consumer
	n1, rerr := io.Copy(h, resp.Body)
	want := sha256.Sum256(body)
	errs := ""
	if rerr != nil {
		errs = rerr.Error()
	}
	return map[string]any{"engine": engine, "read_timeout_ms": readTimeout.Milliseconds(), "pause_ms": pause.Milliseconds(), "size": len(body), "chunked": chunked,
		"status": resp.StatusCode, "got": int64(n0) + n1, "err": errs, "whole": int64(n0)+n1 == int64(len(body)) && hex.EncodeToString(h.Sum(nil)) == hex.EncodeToString(want[:]),
		"backend_requests": fmt.Sprint(len(b.Taken()))}
}
