//go:build verif

// c16: correspondence harness for "upstream URLs stay on the configured endpoint and under its
// base path". Pure part: common.BuildTargetURL (after the handlers' util.StripPrefix), util.StripPrefix,
// util.ResolveURLPath, the repository's health / model URL resolution, and the library functions the
// model re-implements (path.Clean, path.Join, url.PathUnescape). Stack part: raw request targets
// through the unchanged production wiring (router + handlers + either engine) to a recording
// raw-socket backend, next to a decoy listener that must never be contacted.
package main

import (
	"github.com/thushan/olla/internal/core/constants"
	"bufio"
	"context"
	"encoding/hex"
	"fmt"
	"io"
	"net"
	"net/http"
	"net/url"
	"os"
	"path"
	"strconv"
	"strings"
	"sync"
	"sync/atomic"
	"time"

	"github.com/thushan/olla/internal/adapter/discovery"
	"github.com/thushan/olla/internal/adapter/proxy"
	"github.com/thushan/olla/internal/adapter/proxy/common"
	"github.com/thushan/olla/internal/app"
	"github.com/thushan/olla/internal/app/services"
	"github.com/thushan/olla/internal/config"
	"github.com/thushan/olla/internal/core/domain"
	"github.com/thushan/olla/internal/logger"
	"github.com/thushan/olla/internal/util"
	"github.com/thushan/olla/internal/zz_verif/stack"
	"github.com/thushan/olla/internal/zz_verif/vlib"
)

func hx(s string) string { return hex.EncodeToString([]byte(s)) }

// ---------------------------------------------------------------- path grammar

var segAlphabet = []string{"a", "b", "v1", "chat", ".", "..", "", "%2e%2e", "%2E.", ".%2e", "%2f", "%2F..", ";p", "a;p=1", "é", "%zz", "%", "%2", "...", "..a", "a..", " ", "%25", "%252e%252e", "a%2fb", "\xff", "*", "@h", "h:80", "~", "+", "a b", "admin", "secret", "api", "%00", "%2e", "."}

func genPath(r *vlib.Rng) string {
	n := r.Intn(7)
	segs := make([]string, n)
	for i := range segs {
		if r.Chance(1, 2) {
			segs[i] = vlib.Pick(r, []string{"a", "b", "..", ".", "", "v1"})
		} else {
			segs[i] = vlib.Pick(r, segAlphabet)
		}
	}
	p := strings.Join(segs, "/")
	switch r.Intn(8) {
	case 0: // relative
	case 1:
		p = "//" + p
	default:
		p = "/" + p
	}
	if r.Chance(1, 6) {
		p += "/"
	}
	return p
}

var bases = []string{"", "/", "/api", "/api/v1/", "/api/v1", "/a", "//api", "/api//v1", "/x y/z", "/api/v1/deep/er"}
var queries = []string{"", "api_key=sk-live-123&x=1", "access_token=abc.def&password=hunter2", "token=t&key=k&secret=s&auth=a", "API_KEY=UP&client_secret=cs", "x=1", "a=1&b=2", "q=%2e%2e%2f", "a=b=c&&", "x=1#frag", "%zz", "q=a b", "?", "a=1;b=2", "é=1", "p=/../x", "a=%23"}

type epDesc struct {
	Scheme   string `json:"scheme"`
	Host     string `json:"host"`
	BaseHex  string `json:"base_hex"`
	Preserve bool   `json:"preserve"`
}

func mkEndpoint(scheme, host, base string, preserve bool) *domain.Endpoint {
	return &domain.Endpoint{Name: "e", URL: &url.URL{Scheme: scheme, Host: host, Path: base}, PreservePath: preserve}
}

// what the engines do with the result: http.NewRequestWithContext(ctx, method, targetURL.String(), body)
func wire(t *url.URL) map[string]any {
	req, err := http.NewRequest("POST", t.String(), nil)
	if err != nil {
		return map[string]any{"err": err.Error()}
	}
	return map[string]any{"err": "", "scheme": req.URL.Scheme, "host": req.URL.Host, "path_hex": hx(req.URL.Path), "rawquery": req.URL.RawQuery,
		"fragment": req.URL.Fragment, "requri": req.URL.RequestURI(), "req_host": req.Host}
}

func caseBuild(c *vlib.Cases, reqPath, query, routePrefix, proxyPrefix string, scheme, host, base string, preserve bool, bucket string) {
	ep := mkEndpoint(scheme, host, base, preserve)
	p := reqPath
	if routePrefix != "" {
		p = util.StripPrefix(p, routePrefix) // handlers: pr.targetPath = util.StripRoutePrefix(...); r.URL.Path = pr.targetPath
	}
	r := &http.Request{Method: "POST", URL: &url.URL{Path: p, RawQuery: query}, Host: "client-host.example:9"}
	var t *url.URL
	pan := ""
	func() {
		defer func() {
			if x := recover(); x != nil {
				pan = fmt.Sprint(x)
			}
		}()
		t = common.BuildTargetURL(r, ep, proxyPrefix)
	}()
	impl := map[string]any{"panic": pan}
	if t != nil {
		impl["scheme"], impl["host"], impl["path_hex"], impl["rawquery"], impl["fragment"] = t.Scheme, t.Host, hx(t.Path), t.RawQuery, t.Fragment
		impl["wire"] = wire(t)
	}
	c.Emit(map[string]any{"kind": "build", "req_path_hex": hx(reqPath), "query": query, "route_prefix_hex": hx(routePrefix), "proxy_prefix_hex": hx(proxyPrefix),
		"ep": epDesc{scheme, host, hx(base), preserve}, "impl": impl})
	c.Count(bucket)
}

func purePart(c *vlib.Cases, r *vlib.Rng, thorough bool) {
	prod := (&proxy.Configuration{}).GetProxyPrefix()
	// ---- witnesses and corner cases first
	caseBuild(c, "/../../admin/secret", "x=1", "", prod, "http", "backend:8080", "/api/v1", true, "witness.preserve-escape")
	caseBuild(c, "/olla/proxy/../../admin/secret", "x=1", "/olla/proxy/", prod, "http", "backend:8080", "/api/v1", true, "witness.preserve-escape")
	caseBuild(c, "/olla/proxy/a/../../../admin", "", "/olla/proxy/", prod, "https", "backend", "/api/v1/", true, "witness.preserve-escape")
	caseBuild(c, "/v1/chat/completions", "x=1#frag", "", prod, "http", "backend:8080", "", false, "witness.query-fragment")
	for _, b := range bases {
		for _, pre := range []bool{true, false} {
			for _, p := range []string{"", "/", "/v1/models", "/../x", "/a/../b", "/%2e%2e/x", "//evil.example/x", "/a//b/", "/./a/.", "*", "evil.example:80", "/..", "/a/..", "/a/%2e%2e", "/%2e%2e", "/a/%zz", "/@evil.example/x", "/\\evil"} {
				caseBuild(c, p, "q=1", "", prod, "http", "backend:8080", b, pre, "corner")
			}
		}
	}
	// ---- generated paths x bases x preserve x prefixes
	n := 20000
	if thorough {
		n = 400000
	}
	routePrefixes := []string{"/olla/proxy/", "/olla/openai", "/olla/ollama", "/olla/lm-studio", "/olla/"}
	for i := 0; i < n; i++ {
		p := genPath(r)
		base := vlib.Pick(r, bases)
		preserve := r.Bool()
		q := vlib.Pick(r, queries)
		scheme := vlib.Pick(r, []string{"http", "https"})
		host := vlib.Pick(r, []string{"backend:8080", "10.0.0.9", "[::1]:11434", "backend"})
		switch r.Intn(4) {
		case 0: // production shape: handler strips the route prefix, engines pass the inert production prefix
			rp := vlib.Pick(r, routePrefixes)
			full := rp + strings.TrimPrefix(p, "/")
			if r.Chance(1, 3) {
				full = rp + p
			}
			caseBuild(c, full, q, rp, prod, scheme, host, base, preserve, "build.route")
		case 1: // legacy shape: BuildTargetURL itself strips a path prefix
			pp := vlib.Pick(r, []string{"/olla/", "/olla/proxy", "/olla/proxy/", "/"})
			full := pp + strings.TrimPrefix(p, "/")
			if r.Chance(1, 4) {
				full = p // prefix absent
			}
			caseBuild(c, full, q, "", pp, scheme, host, base, preserve, "build.proxyprefix")
		default:
			caseBuild(c, p, q, "", prod, scheme, host, base, preserve, "build.plain")
		}
	}

	// ---- lengths: request paths of every length around the sizes buffers are made of (64, 128, 256, 512, 1024, 4096,
	// 8192 and their neighbours), counted with and without the base path, for plain and preserve_path endpoints
	lbases := []string{"/api/v1", "/a", "", "/engines/llama.cpp/v1"}
	var lens []int
	for _, k := range []int{64, 128, 256, 512, 1024, 2048, 4096, 8192} {
		for d := -12; d <= 4; d++ {
			lens = append(lens, k+d)
		}
	}
	if thorough {
		lens = lens[:0]
		for l := 1; l <= 700; l++ {
			lens = append(lens, l)
		}
		for _, k := range []int{1024, 2048, 4096, 8192, 16384} {
			for d := -30; d <= 6; d++ {
				lens = append(lens, k+d)
			}
		}
	}
	for _, b := range lbases {
		for _, l := range lens {
			for _, total := range []bool{false, true} {
				n := l
				if total {
					n = l - len(b) // base + remaining path = l
				}
				if n < 2 {
					continue
				}
				seg := "/" + strings.Repeat("segment/", n/8)
				if len(seg) < n {
					seg = seg + strings.Repeat("z", n-len(seg))
				}
				caseBuild(c, seg[:n], "q=1", "", prod, "http", "backend:8080", b, true, "length")
				if !total {
					caseBuild(c, seg[:n], "", "", prod, "http", "backend:8080", b, false, "length")
				}
			}
		}
	}

	// ---- library ports: path.Clean, path.Join, url.PathUnescape, util.StripPrefix
	m := 4000
	if thorough {
		m = 60000
	}
	for i := 0; i < m; i++ {
		p := genPath(r)
		if r.Chance(1, 5) {
			p = strings.TrimPrefix(p, "/")
		}
		b := vlib.Pick(r, bases)
		if r.Chance(1, 3) {
			b = genPath(r)
		}
		dec, err := url.PathUnescape(p)
		pre := vlib.Pick(r, []string{"/olla/proxy/", "/olla/", "/", "", "a", p, "route_prefix"})
		full := p
		if r.Bool() {
			full = pre + p
		}
		c.Emit(map[string]any{"kind": "lib", "p_hex": hx(p), "b_hex": hx(b), "full_hex": hx(full), "pre_hex": hx(pre),
			"impl": map[string]any{"clean_hex": hx(path.Clean(p)), "join_hex": hx(path.Join(b, p)), "unescape_ok": err == nil, "unescape_hex": hx(dec),
				"strip_hex": hx(util.StripPrefix(full, pre))}})
		c.Count("lib")
	}

	// ---- util.ResolveURLPath and the repository's health / model URL resolution
	rel := []string{"/health", "/v1/models", "/", "health", "v1/models", "/api/tags", "./health", "../health", "/../../etc", "/a/../../b", "//x/y", "/health?full=1", "/a b", "", "http://other.example:9000/models", "HTTPS://other/x", "//other.example/x", "mailto:x", "/%2e%2e/x", "..", "a/../../.."}
	ubases := []string{"http://h:1", "http://h:1/", "http://h:1/api", "http://h:1/api/", "http://h:1/api/v1", "https://[::1]:8443/engines/llama.cpp/", "http://h:1/a%20b/", "", "http://h:1/api?x=1", "http://user:pw@h:1/api/", "::bad::"}
	for _, b := range ubases {
		for _, p := range rel {
			caseResolve(c, b, p)
		}
	}
	k := 1500
	if thorough {
		k = 20000
	}
	for i := 0; i < k; i++ {
		p := genPath(r)
		if r.Chance(1, 4) {
			p = strings.TrimPrefix(p, "/")
		}
		caseResolve(c, "http://h:1"+vlib.Pick(r, bases[:8]), p)
	}
	// repository: endpoint configs through the real loader (profiles from ./config/profiles)
	types := []string{"ollama", "openai", "vllm", "lm-studio", "llamacpp", "lemonade", "docker-model-runner", "sglang", "litellm", ""}
	for _, ty := range types {
		for _, b := range []string{"http://h:1", "http://h:1/", "http://h:1/api/v1", "http://h:1/engines/llama.cpp/"} {
			caseRepo(c, b, ty, "", "")
			caseRepo(c, b, ty, "/custom/health", "custom/models")
			caseRepo(c, b, ty, "/../up", "/a/../../b")
			caseRepo(c, b, ty, "http://elsewhere.example/h", "/v1/models")
		}
	}
}

func parsed(s string) map[string]any {
	u, err := url.Parse(s)
	if err != nil {
		return map[string]any{"err": err.Error()}
	}
	return map[string]any{"err": "", "scheme": u.Scheme, "host": u.Host, "path_hex": hx(u.Path), "rawquery": u.RawQuery, "abs": u.IsAbs()}
}

func caseResolve(c *vlib.Cases, base, p string) {
	out := util.ResolveURLPath(base, p)
	c.Emit(map[string]any{"kind": "resolve", "base": base, "p_hex": hx(p), "base_parsed": parsed(base), "p_parsed": parsed(p),
		"impl": map[string]any{"out": out, "out_is_p": out == p, "out_is_base": out == base, "parsed": parsed(out)}})
	c.Count("resolve")
}

func caseRepo(c *vlib.Cases, base, typ, health, model string) {
	repo := discovery.NewStaticEndpointRepository()
	pr := 1
	cfg := config.EndpointConfig{URL: base, Name: "e", Type: typ, Priority: &pr, HealthCheckURL: health, ModelURL: model, CheckInterval: time.Minute, CheckTimeout: time.Second}
	err := repo.LoadFromConfig(context.Background(), []config.EndpointConfig{cfg})
	impl := map[string]any{"err": ""}
	if err != nil {
		impl["err"] = err.Error()
	} else {
		all, _ := repo.GetAll(context.Background())
		if len(all) == 1 {
			e := all[0]
			impl["url"] = parsed(e.URL.String())
			impl["health"] = parsed(e.HealthCheckURLString)
			impl["model"] = parsed(e.ModelURLString)
			impl["health_path_hex"] = hx(e.HealthCheckPathString)
			impl["health_obj_matches"] = e.HealthCheckURL.String() == e.HealthCheckURLString
			impl["model_obj_matches"] = e.ModelUrl.String() == e.ModelURLString
		}
	}
	c.Emit(map[string]any{"kind": "repo", "base": base, "type": typ, "health_hex": hx(health), "model_hex": hx(model), "base_parsed": parsed(base),
		"health_parsed": parsed(health), "model_parsed": parsed(model), "impl": impl})
	c.Count("repo")
}

// ---------------------------------------------------------------- stack

type seenReq struct {
	Line     string `json:"line"`
	Target   string `json:"target"`
	PathHex  string `json:"path_hex"`
	RawQuery string `json:"rawquery"`
	ParseErr string `json:"parse_err"`
	Host     string `json:"host"`
}

type rawBackend struct {
	ln    net.Listener
	addr  string
	mu    sync.Mutex
	seen  []seenReq
	conns int64
}

func newBackend() *rawBackend {
	ln, err := net.Listen("tcp", "127.0.0.1:0")
	if err != nil {
		panic(err)
	}
	stack.OwnPort(ln.Addr().String())
	b := &rawBackend{ln: ln, addr: ln.Addr().String()}
	go func() {
		for {
			conn, err := ln.Accept()
			if err != nil {
				return
			}
			atomic.AddInt64(&b.conns, 1)
			go b.handle(conn)
		}
	}()
	return b
}

func (b *rawBackend) take() []seenReq {
	b.mu.Lock()
	defer b.mu.Unlock()
	s := b.seen
	b.seen = nil
	return s
}

func (b *rawBackend) handle(conn net.Conn) {
	defer conn.Close()
	br := bufio.NewReader(conn)
	for {
		conn.SetReadDeadline(time.Now().Add(5 * time.Second))
		line, err := br.ReadString('\n')
		if err != nil {
			return
		}
		rl := strings.TrimRight(line, "\r\n")
		cl, chunked, host := 0, false, ""
		for {
			l, err := br.ReadString('\n')
			if err != nil {
				return
			}
			l = strings.TrimRight(l, "\r\n")
			if l == "" {
				break
			}
			k, v, _ := strings.Cut(l, ":")
			v = strings.Trim(v, " \t")
			switch strings.ToLower(k) {
			case "content-length":
				cl, _ = strconv.Atoi(v)
			case "transfer-encoding":
				chunked = strings.Contains(strings.ToLower(v), "chunked")
			case "host":
				host = v
			}
		}
		if chunked {
			for {
				sz, err := br.ReadString('\n')
				if err != nil {
					return
				}
				n, _ := strconv.ParseInt(strings.TrimSpace(strings.SplitN(sz, ";", 2)[0]), 16, 64)
				if _, err := io.CopyN(io.Discard, br, n+2); err != nil && n > 0 {
					return
				}
				if n == 0 {
					break
				}
			}
		} else if cl > 0 {
			if _, err := io.CopyN(io.Discard, br, int64(cl)); err != nil {
				return
			}
		}
		parts := strings.SplitN(rl, " ", 3)
		target := ""
		if len(parts) > 1 {
			target = parts[1]
		}
		body := `{"ok":true}`
		if strings.HasSuffix(target, "/zz-health") || strings.HasSuffix(target, "/zz-models") {
			body = `{"object":"list","data":[]}`
		} else {
			s := seenReq{Line: rl, Target: target, Host: host}
			if u, err := url.ParseRequestURI(target); err != nil {
				s.ParseErr = err.Error()
			} else {
				s.PathHex, s.RawQuery = hx(u.Path), u.RawQuery
			}
			b.mu.Lock()
			b.seen = append(b.seen, s)
			b.mu.Unlock()
		}
		fmt.Fprintf(conn, "HTTP/1.1 200 OK\r\nContent-Type: application/json\r\nContent-Length: %d\r\n\r\n%s", len(body), body)
	}
}

var (
	logOnce   sync.Once
	sharedLog logger.StyledLogger
)

func quietLog() logger.StyledLogger {
	logOnce.Do(func() {
		_, sl, _, err := logger.NewWithTheme(&logger.Config{Level: "error", Theme: "default"})
		if err != nil {
			panic(err)
		}
		sharedLog = sl
	})
	return sharedLog
}

type stk struct {
	mgr    *services.ServiceManager
	addr   string
	cancel context.CancelFunc
	repo   domain.EndpointRepository
}

// firstEP (when set): a higher-priority endpoint in front of the recording one; it refuses every connection, so each
// request reaches the recording endpoint as a failover (the second attempt of the same request)
type firstEP struct {
	url      string
	preserve bool
}

var first *firstEP

// reviveFirst marks the refusing endpoint healthy again (the failed attempt took it out of rotation)
func (s *stk) reviveFirst() {
	if s.repo == nil {
		return
	}
	all, _ := s.repo.GetAll(context.Background())
	for _, e := range all {
		if e.Name == "first" {
			cp := *e
			cp.Status = domain.StatusHealthy
			cp.ConsecutiveFailures = 0
			cp.BackoffMultiplier = 1
			cp.NextCheckTime = time.Now().Add(10 * time.Minute)
			s.repo.UpdateEndpoint(context.Background(), &cp)
		}
	}
}

func startStack(engine, backendAddr, base string, preserve bool) (*stk, error) {
	var last error
	for try := 0; try < 4; try++ {
		cfg := config.DefaultConfig()
		cfg.Server.Host = "127.0.0.1"
		cfg.Server.RequestLogging = true // the default: the logging middleware is part of what production runs
		cfg.Server.RateLimits.GlobalRequestsPerMinute = 0
		cfg.Server.RateLimits.PerIPRequestsPerMinute = 0
		cfg.Server.RateLimits.HealthRequestsPerMinute = 0
		cfg.Server.RateLimits.BurstSize = 0
		stack.ApplyVary(cfg, stack.VaryFor("c16", engine, base, preserve)) // settings no property mentions (scratch directories live in the run directory)
		cfg.Proxy.Engine = engine
		cfg.Proxy.LoadBalancer = "priority"
		cfg.Discovery.ModelDiscovery.Enabled = false
		pr := 100
		cfg.Discovery.Static.Endpoints = []config.EndpointConfig{{
			URL: "http://" + backendAddr + base, Name: "only", Type: "openai", Priority: &pr,
			HealthCheckURL: "/zz-health", ModelURL: "/zz-models", CheckInterval: 10 * time.Minute, CheckTimeout: 2 * time.Second, PreservePath: preserve,
		}}
		if first != nil {
			pf := 200
			cfg.Discovery.Static.Endpoints = append([]config.EndpointConfig{{URL: first.url, Name: "first", Type: "openai", Priority: &pf,
				HealthCheckURL: "/zz-health", ModelURL: "/zz-models", CheckInterval: 10 * time.Minute, CheckTimeout: 2 * time.Second, PreservePath: first.preserve}}, cfg.Discovery.Static.Endpoints...)
		}
		// a port from this process's reserved block (picking a free ephemeral port and closing it again lets another
		// process's listener take it before the server binds it)
		cfg.Server.Port = stack.FreePort()
		ctx, cancel := context.WithCancel(context.Background())
		mgr, err := app.CreateAndStartServiceManager(ctx, cfg, quietLog())
		if err != nil {
			cancel()
			last = err
			continue
		}
		s := &stk{mgr: mgr, addr: fmt.Sprintf("127.0.0.1:%d", cfg.Server.Port), cancel: cancel}
		var repo domain.EndpointRepository
		if d, err := mgr.GetRegistry().GetDiscovery(); err == nil {
			repo, _ = d.GetEndpointRepository()
		}
		s.repo = repo
		deadline := time.Now().Add(8 * time.Second)
		for time.Now().Before(deadline) {
			conn, err := net.DialTimeout("tcp", s.addr, 200*time.Millisecond)
			if err == nil {
				conn.Close()
				if repo != nil {
					if h, err := repo.GetHealthy(context.Background()); err == nil && len(h) >= 1 {
						return s, nil
					}
				}
			}
			time.Sleep(15 * time.Millisecond)
		}
		s.stop()
		last = fmt.Errorf("stack did not become ready (engine %s)", engine)
	}
	return nil, last
}

func (s *stk) stop() {
	ctx, c := context.WithTimeout(context.Background(), 3*time.Second)
	defer c()
	s.mgr.Stop(ctx)
	s.cancel()
}

func rawDo(addr string, req string) (string, error) {
	conn, err := net.DialTimeout("tcp", addr, 2*time.Second)
	if err != nil {
		return "", err
	}
	defer conn.Close()
	conn.SetDeadline(time.Now().Add(8 * time.Second))
	if _, err := io.WriteString(conn, req); err != nil {
		return "", err
	}
	resp, err := http.ReadResponse(bufio.NewReader(conn), nil)
	if err != nil {
		return "", err
	}
	io.Copy(io.Discard, resp.Body)
	resp.Body.Close()
	return resp.Status, nil
}

// raw request-target tails (what follows the route prefix); DECOY is replaced by the decoy's host:port
var tails = []string{
	"v1/chat/completions", "v1/chat/completions?x=1&y=%2e%2e", "%2e%2e/%2e%2e/admin/secret?x=1", "%2E%2E/%2e%2E/admin/secret", "a/%2e%2e/b", "a/%2e%2e/%2e%2e/%2e%2e/b",
	"..%2f..%2fadmin", "a%2f..%2f..%2fadmin", "%2e%2e%2f%2e%2e%2fadmin", "//x", "a//b/", "./a", "a/./b", "../x", "a/../../x", "a;p=1/b;q", "%252e%252e/x", "%252e%252e%252fx",
	"%zz", "a%2", "\xc3\xa9", "%C3%A9/x", "%ff/x", "x?a=1&b=%20&c=", "x?a=1#frag", "x#frag", "x?", "x??a", "x?a=b?c=/../d", "x?%zz", "%2e", "%2e/", "%2e%2e", "%2e%2e/", "",
	"olla/openai/v1/chat/completions", "olla/proxy/v1/x?a=1", "olla/", "olla", "ollama/api/tags", "olla/olla/x", // the backend is another Olla: the remainder itself begins with Olla's prefix
	"//DECOY/x", "/DECOY/x", "http://DECOY/x", "%2f%2fDECOY/x", "@DECOY/x", "x?url=http://DECOY/", "\\\\DECOY\\x", "%5c%5cDECOY/x", "..;/x", "%2e%2e;/x", "a/..;/..;/x", "v1/../v1/models", "%2e%2e/%2e%2e/%2e%2e/%2e%2e/",
}

func genTail(r *vlib.Rng) string {
	n := 1 + r.Intn(5)
	segs := make([]string, n)
	enc := []string{"a", "b", "%2e%2e", "%2e", "..", ".", "", "%2f", "%2e%2e%2f", "x;y", "%25", "v1", "%2E%2E", "admin", "..%2f", "%5c", "%2e%2e%5c"}
	for i := range segs {
		segs[i] = vlib.Pick(r, enc)
	}
	t := strings.Join(segs, "/")
	if r.Chance(1, 3) {
		t += "?" + vlib.Pick(r, []string{"x=1", "a=%2e%2e", "q=1&r=2", "u=/../x", "a=1#f"})
	}
	return t
}

// the prefix the handler strips for a route mount: the proxy route strips its own pattern, the
// provider routes strip "/olla/" + the normalised provider name (no trailing slash)
func stripPrefixFor(mount string) string {
	switch mount {
	case "/olla/proxy/":
		return mount
	case "/olla/lmstudio/", "/olla/lm_studio/":
		return "/olla/lm-studio"
	}
	return strings.TrimSuffix(mount, "/")
}

// the same with the provider segment exactly as written in the URL
func writtenPrefixFor(mount string) string {
	if mount == "/olla/proxy/" {
		return mount
	}
	return strings.TrimSuffix(mount, "/")
}

func stackCase(c *vlib.Cases, engine, base string, preserve bool, routePrefix, tail string, absForm bool, s *stk, b, decoy *rawBackend) {
	stackCaseH(c, engine, base, preserve, routePrefix, tail, absForm, false, s, b, decoy)
}

func stackCaseH(c *vlib.Cases, engine, base string, preserve bool, routePrefix, tail string, absForm, hostileHost bool, s *stk, b, decoy *rawBackend) {
	target := routePrefix + tail
	hostHdr := "olla.test"
	if absForm {
		target = "http://" + decoy.addr + routePrefix + tail
		hostHdr = decoy.addr
	}
	target = strings.ReplaceAll(target, "DECOY", decoy.addr)
	if hostileHost {
		hostHdr = decoy.addr
	}
	body := `{"input":"hi"}`
	// headers other proxies honour when rebuilding a target; olla must not
	hostile := fmt.Sprintf("X-Forwarded-Host: %s\r\nForwarded: host=%s;proto=http\r\nX-Original-URL: /admin/secret\r\nX-Rewrite-URL: /admin/secret\r\nX-Forwarded-Prefix: /../..\r\n", decoy.addr, decoy.addr)
	req := fmt.Sprintf("POST %s HTTP/1.1\r\nHost: %s\r\n%sContent-Type: application/json\r\nContent-Length: %d\r\n\r\n%s", target, hostHdr, hostile, len(body), body)
	b.take()
	if first != nil {
		s.reviveFirst()
	}
	before := atomic.LoadInt64(&decoy.conns)
	status, err := rawDo(s.addr, req)
	errs := ""
	if err != nil {
		errs = err.Error()
	}
	time.Sleep(2 * time.Millisecond)
	seen := b.take()
	hits := atomic.LoadInt64(&decoy.conns) - before
	// how Go's server parses this request-target (oracle for the model's input)
	pj := map[string]any{}
	if u, err := url.ParseRequestURI(target); err != nil {
		pj["err"] = err.Error()
	} else {
		pj["err"], pj["path_hex"], pj["rawquery"] = "", hx(u.Path), u.RawQuery
	}
	c.Emit(map[string]any{"kind": "stack", "engine": engine, "target": target, "route_prefix_hex": hx(routePrefix), "strip_prefix_hex": hx(stripPrefixFor(routePrefix)), "written_prefix_hex": hx(writtenPrefixFor(routePrefix)), "abs_form": absForm, "parsed": pj,
		"ep": epDesc{"http", b.addr, hx(base), preserve}, "impl": map[string]any{"status": status, "err": errs, "seen": seen, "decoy_hits": hits}})
	c.Count("stack." + engine + map[bool]string{true: ".preserve", false: ".plain"}[preserve])
}

func stackPart(c *vlib.Cases, r *vlib.Rng, thorough bool) {
	extra := 25
	if thorough {
		extra = 400
	}
	decoy := newBackend()
	type cfg struct {
		base     string
		preserve bool
	}
	for _, engine := range []string{"sherpa", "olla"} {
		for _, cf := range []cfg{{"/api/v1", true}, {"/api/v1", false}, {"", false}, {"/api/v1/", true}} {
			b := newBackend()
			s, err := startStack(engine, b.addr, cf.base, cf.preserve)
			if err != nil {
				c.Emit(map[string]any{"kind": "stack-error", "engine": engine, "impl": map[string]any{"err": err.Error()}})
				continue
			}
			// first (a failed dial marks the only endpoint unhealthy): Host names the decoy
			stackCaseH(c, engine, cf.base, cf.preserve, "/olla/proxy/", "v1/embeddings?h=1", false, true, s, b, decoy)
			stackCaseH(c, engine, cf.base, cf.preserve, "/olla/openai/", "v1/embeddings", false, true, s, b, decoy)
			stackCase(c, engine, cf.base, cf.preserve, "/olla/proxy/", "v1/x?a=1", true, s, b, decoy)
			// query parameters whose names look like credentials travel like any other (verbatim)
			for _, q := range []string{"api_key=sk-live-123&x=1", "access_token=abc.def&password=hunter2", "token=t&key=k&secret=s&auth_token=a&apikey=z", "API_KEY=UP&client_secret=cs&x-api-key=y", "api%5Fkey=enc"} {
				stackCase(c, engine, cf.base, cf.preserve, "/olla/proxy/", "v1/chat/completions?"+q, false, s, b, decoy)
			}
			for i, t := range tails {
				rp := "/olla/proxy/"
				if i%3 == 1 {
					rp = "/olla/openai/"
				}
				stackCase(c, engine, cf.base, cf.preserve, rp, t, false, s, b, decoy)
			}
			stackCase(c, engine, cf.base, cf.preserve, "/olla/proxy/", "v1/x?a=1", true, s, b, decoy)
			stackCase(c, engine, cf.base, cf.preserve, "/olla/proxy/", "%2e%2e/%2e%2e/x", true, s, b, decoy)
			stackCase(c, engine, cf.base, cf.preserve, "/olla/lmstudio/", "v1/models/x", false, s, b, decoy)
			for i := 0; i < extra; i++ {
				rp := vlib.Pick(r, []string{"/olla/proxy/", "/olla/openai/", "/olla/lm-studio/"})
				stackCase(c, engine, cf.base, cf.preserve, rp, genTail(r), false, s, b, decoy)
			}
			s.stop()
			b.ln.Close()
		}
	}
	// the same request as a FAILOVER: a preferred endpoint with its own base path and preserve_path refuses the connection;
	// what the recording endpoint is asked for is the request's remaining path under ITS base path, as if it had been first
	for _, engine := range []string{"sherpa", "olla"} {
		for _, fc := range []cfg{{"/api/v1", true}, {"/v2/", true}, {"/api/v1", false}} {
			for _, cf := range []cfg{{"/api/v1", true}, {"", false}, {"/other", true}, {"/", true}} {
				rb := stack.NewBackend("F")
				rb.Refuse()
				first = &firstEP{url: rb.URL() + fc.base, preserve: fc.preserve}
				b := newBackend()
				s, err := startStack(engine, b.addr, cf.base, cf.preserve)
				if err != nil {
					c.Emit(map[string]any{"kind": "stack-error", "engine": engine, "impl": map[string]any{"err": err.Error()}})
					first = nil
					rb.Close()
					continue
				}
				for i, t := range []string{"v1/chat/completions", "v1/x?a=1&b=%2F", "a/b/c", "api/v1/models", "v2/x", ""} {
					rp := "/olla/proxy/"
					if i%3 == 1 {
						rp = "/olla/openai/"
					}
					stackCase(c, engine, cf.base, cf.preserve, rp, t, false, s, b, decoy)
					c.Count("stack.failover")
				}
				for i := 0; i < extra/5; i++ {
					stackCase(c, engine, cf.base, cf.preserve, "/olla/proxy/", genTail(r), false, s, b, decoy)
					c.Count("stack.failover")
				}
				s.stop()
				b.ln.Close()
				first = nil
				rb.Close()
			}
		}
	}
	decoy.ln.Close()
}

// mixupCase: two endpoints with different base paths behind round-robin; first some backend answers that the relay cannot
// pass on (a status line below 100), then many clients at once, each request numbered in its path and in its query.
// Whatever endpoint a request is sent to, it is asked for THIS request's path under THAT endpoint's base path.
func mixupCase(engine string, rounds, clients int) map[string]any {
	a, b := stack.NewBackend("alpha"), stack.NewBackend("beta")
	defer a.Close()
	defer b.Close()
	bases := map[string]string{"alpha": "/a/v1", "beta": "/b"}
	s, err := stack.Start(stack.Opts{Vary: stack.VaryFor("c16.mixup", engine), Engine: engine, Balancer: "round-robin", EPs: []stack.EP{
		{Name: "alpha", Type: "openai", Priority: 100, Backend: a, BasePath: bases["alpha"], Preserve: true},
		{Name: "beta", Type: "openai", Priority: 100, Backend: b, BasePath: bases["beta"], Preserve: true}}})
	if err != nil {
		return map[string]any{"start_err": err.Error()}
	}
	defer s.Stop()
	ok := stack.Behaviour{Kind: "ok", Status: 200, Headers: [][2]string{{"Content-Type", "application/json"}}, Body: []byte(`{"ok":true}`)}
	vlib.Breadcrumb(map[string]any{"kind": "mixup", "engine": engine, "rounds": rounds, "clients": clients, "what": "backend answers with status 099, then bursts of concurrent numbered requests to two endpoints with base paths /a/v1 and /b"})
	send := func(id string) {
		stack.Do(s.Addr, stack.Request("POST", "/olla/proxy/v1/x/"+id+"?n="+id, s.Addr, [][2]string{{"Content-Type", "application/json"}}, []byte(`{}`), false), 5*time.Second)
	}
	// answers the relay cannot pass on
	for _, be := range []*stack.Backend{a, b} {
		be.SetBehaviour(stack.Behaviour{Kind: "ok", Status: 99, Headers: [][2]string{{"Content-Type", "application/json"}}, Body: []byte(`{}`)})
	}
	for i := 0; i < 4; i++ {
		send(fmt.Sprintf("odd%d", i))
		s.SetStatus("alpha", domain.StatusHealthy)
		s.SetStatus("beta", domain.StatusHealthy)
	}
	for _, be := range []*stack.Backend{a, b} {
		be.SetBehaviour(ok)
		be.Taken()
	}
	total, wrong, first := 0, 0, ""
	for r := 0; r < rounds; r++ {
		var wg sync.WaitGroup
		for k := 0; k < clients; k++ {
			wg.Add(1)
			go func(k int) {
				defer wg.Done()
				send(fmt.Sprintf("r%dk%d", r, k))
			}(k)
		}
		wg.Wait()
		for _, be := range []*stack.Backend{a, b} {
			for _, sn := range be.Taken() {
				total++
				id := strings.TrimPrefix(sn.RawQuery, "n=")
				if want := bases[be.Name] + "/v1/x/" + id; sn.Path != want {
					wrong++
					if first == "" {
						first = fmt.Sprintf("round %d: the %s backend (base %s) was asked for %s?%s; this request's path under this endpoint's base is %s", r, be.Name, bases[be.Name], sn.Path, sn.RawQuery, want)
					}
				}
			}
		}
		s.SetStatus("alpha", domain.StatusHealthy)
		s.SetStatus("beta", domain.StatusHealthy)
	}
	return map[string]any{"requests_seen": total, "wrong": wrong, "first": first, "rounds": rounds, "clients": clients}
}

// gatewayCase: several endpoints behind ONE listener (engines of one model runner, path-routed nodes behind one ingress):
// same scheme://host:port, different base paths, preserve_path on or off per endpoint, round-robin, one long-lived stack.
// The same few request paths are asked for again and again, so whichever endpoint served a path before, the next one gets
// the same path.  Each request is emitted as an ordinary "stack" case for the endpoint that served it (X-Olla-Endpoint)
// and judged by the model's buildTarget: the target is a function of this request and of the endpoint it is sent to.
func gatewayCase(c *vlib.Cases, r *vlib.Rng, engine string, rounds int) {
	g := stack.NewBackend("gateway")
	defer g.Close()
	g.SetBehaviour(stack.Behaviour{Kind: "ok", Status: 200, Headers: [][2]string{{"Content-Type", "application/json"}}, Body: []byte(`{"ok":true}`)})
	type ge struct {
		base     string
		preserve bool
	}
	sets := [][]ge{
		{{"/engines/llama.cpp", true}, {"/engines/vllm", true}},
		{{"/api", false}, {"/api/v1", false}, {"/api/v1", true}},
		{{"/a", true}, {"/a", false}, {"", false}},
	}
	set := sets[r.Intn(len(sets))]
	var eps []stack.EP
	byName := map[string]ge{}
	for i, e := range set {
		n := fmt.Sprintf("g%d", i)
		byName[n] = e
		eps = append(eps, stack.EP{Name: n, Type: "openai", Priority: 100, Backend: g, BasePath: e.base, Preserve: e.preserve})
	}
	s, err := stack.Start(stack.Opts{Vary: stack.VaryFor("c16.gateway", engine), Engine: engine, Balancer: "round-robin", EPs: eps})
	if err != nil {
		c.Emit(map[string]any{"kind": "stack-error", "engine": engine, "impl": map[string]any{"err": err.Error()}})
		return
	}
	defer s.Stop()
	tailsG := []string{"v1/chat/completions", "v1/models", "models", "v1/embeddings?x=1", "api/v1/models", "v1/v1/x", ""}
	for i := 0; i < rounds; i++ {
		rp := "/olla/proxy/"
		if i%4 == 3 {
			rp = "/olla/openai/"
		}
		tail := tailsG[r.Intn(len(tailsG))]
		target := rp + tail
		g.Taken()
		resp := stack.Do(s.Addr, stack.Request("POST", target, s.Addr, [][2]string{{"Content-Type", "application/json"}}, []byte(`{"input":"hi"}`), false), 5*time.Second)
		name := ""
		if v := resp.Header[constants.HeaderXOllaEndpoint]; len(v) > 0 {
			name = v[0]
		}
		e, known := byName[name]
		taken := g.Taken()
		if !known || len(taken) != 1 {
			continue // not served (or not attributable): nothing to judge about a target
		}
		pj := map[string]any{}
		if u, err := url.ParseRequestURI(target); err != nil {
			pj["err"] = err.Error()
		} else {
			pj["err"], pj["path_hex"], pj["rawquery"] = "", hx(u.Path), u.RawQuery
		}
		pathHex, perr := "", ""
		if up, err := url.PathUnescape(taken[0].Path); err == nil {
			pathHex = hx(up)
		} else {
			perr = err.Error()
		}
		seen := []seenReq{{Line: taken[0].Method + " " + taken[0].Path, Target: taken[0].Path + "?" + taken[0].RawQuery, PathHex: pathHex, RawQuery: taken[0].RawQuery, ParseErr: perr, Host: taken[0].Host}}
		c.Emit(map[string]any{"kind": "stack", "engine": engine, "target": target, "route_prefix_hex": hx(rp), "strip_prefix_hex": hx(stripPrefixFor(rp)), "written_prefix_hex": hx(writtenPrefixFor(rp)), "abs_form": false, "parsed": pj,
			"gateway": name, "ep": epDesc{"http", g.Addr(), hx(e.base), e.preserve}, "impl": map[string]any{"status": fmt.Sprint(resp.Status), "err": resp.Err, "seen": seen, "decoy_hits": 0}})
		c.Count("stack.gateway." + engine)
		for n := range byName {
			s.SetStatus(n, domain.StatusHealthy)
		}
	}
}

func main() {
	tier := vlib.Tier()
	r := vlib.NewRng(vlib.Seed())
	c := vlib.OpenCases("cases.jsonl")
	thorough := tier == "thorough"
	purePart(c, r, thorough)
	if os.Getenv("VERIF_C16_NOSTACK") == "" {
		stackPart(c, r.Fork(), thorough)
		for _, engine := range []string{"sherpa", "olla"} {
			for k := 0; k < 3; k++ {
				gatewayCase(c, r.Fork(), engine, map[bool]int{false: 60, true: 600}[thorough])
			}
		}
		for _, engine := range []string{"sherpa", "olla"} {
			c.Emit(map[string]any{"kind": "mixup", "engine": engine, "impl": mixupCase(engine, map[bool]int{false: 120, true: 1200}[thorough], 32)})
			c.Count("mixup." + engine)
		}
	}
	c.Close(map[string]any{"exhaustive": false, "exhaustive_note": "path space is infinite; corner paths x 10 base paths x preserve on/off are enumerated, the rest is grammar-generated"})
}
