//go:build verif

// c11: provider-scoped routes through the production stack.
// One stack per deployment (a set of typed endpoints, each with its own recording backend that
// serves its provider's native model-listing format so discovery really registers models);
// against each deployment every provider prefix the router registers (taken from the running
// code: handlers.Application route table) x request paths {chat, completions, two native paths,
// an unknown path} x requested model {none, one per endpoint, one nobody lists}, plus every
// model-listing route under the prefix. Recorded: client status, which backend(s) received the
// request, the ids a listing returned.
package main

import (
	"context"
	"crypto/sha256"
	"encoding/json"
	"fmt"
	"os"
	"sort"
	"strings"
	"sync"
	"time"

	"github.com/thushan/olla/internal/adapter/registry/profile"
	"github.com/thushan/olla/internal/app/handlers"
	"github.com/thushan/olla/internal/config"
	"github.com/thushan/olla/internal/core/domain"
	"github.com/thushan/olla/internal/zz_verif/stack"
	"github.com/thushan/olla/internal/zz_verif/vlib"
)

type EPx struct {
	Name    string   `json:"name"`
	Type    string   `json:"type"`
	Prio    int      `json:"prio"`
	Healthy bool     `json:"healthy"`
	Models  []string `json:"models"`
}

type Deployment struct {
	EPs []EPx `json:"eps"`
	// Shadowed: further configuration entries that name the URL of EPs[Of] again, with another name and type, and
	// come FIRST in the configuration: the repository keeps one endpoint per URL and the later entry (EPs[Of]) wins.
	Shadowed []Shadow `json:"shadowed,omitempty"`
}

type Shadow struct {
	Name string `json:"name"`
	Type string `json:"type"`
	Of   int    `json:"of"`
}

type routes struct {
	proxyPrefixes []string
	listing       map[string][]string // prefix -> sub paths
}

func routeTable() routes {
	app, err := handlers.NewApplication(context.Background(), config.DefaultConfig(), nil, nil, nil, nil, nil, nil, vlib.QuietLogger())
	if err != nil {
		fmt.Fprintln(os.Stderr, "c11: NewApplication:", err)
		os.Exit(3)
	}
	app.RegisterRoutes()
	rt := routes{listing: map[string][]string{}}
	rs := app.GetRouteRegistry().GetRoutes()
	for _, r := range vlib.SortedKeys(rs) {
		info := rs[r]
		if !strings.HasPrefix(r, "/olla/") {
			continue
		}
		rest := strings.TrimPrefix(r, "/olla/")
		i := strings.Index(rest, "/")
		if i < 0 {
			continue
		}
		pre, sub := rest[:i], rest[i:]
		if pre == "proxy" || pre == "models" || pre == "anthropic" {
			continue
		}
		if info.IsProxy && sub == "/" {
			rt.proxyPrefixes = append(rt.proxyPrefixes, pre)
		} else if info.Method == "GET" && (strings.HasSuffix(sub, "/models") || strings.HasSuffix(sub, "/tags")) {
			rt.listing[pre] = append(rt.listing[pre], sub)
		}
	}
	return rt
}

func listingBody(ty string, models []string) string {
	var data, ms []string
	for _, m := range models {
		data = append(data, fmt.Sprintf(`{"id":%q,"object":"model","created":1700000000,"owned_by":"zz"}`, m))
		ms = append(ms, fmt.Sprintf(`{"name":%q,"model":%q,"modified_at":"2025-01-01T00:00:00Z","size":1000,"digest":%q,"details":{"format":"gguf","family":"zz","parameter_size":"1B","quantization_level":"Q4_0"}}`, m, m, fmt.Sprintf("%x", sha256.Sum256([]byte(m)))))
	}
	d := "[" + strings.Join(data, ",") + "]"
	o := "[" + strings.Join(ms, ",") + "]"
	switch ty {
	case "ollama":
		return `{"models":` + o + `}`
	case "auto":
		return `{"object":"list","data":` + d + `,"models":` + o + `}`
	default:
		return `{"object":"list","data":` + d + `}`
	}
}

var postPaths = []string{"/v1/chat/completions", "/v1/completions", "/api/chat", "/generate", "/zz/unknown"}

type obs struct {
	Status    int      `json:"status"`
	Err       string   `json:"err"`
	Contacted []string `json:"contacted"`
	Body      string   `json:"body"`
	IDs       []string `json:"ids,omitempty"`
}

func extractIDs(b []byte) []string {
	var v map[string]any
	if json.Unmarshal(b, &v) != nil {
		return nil
	}
	var out []string
	for _, k := range []string{"data", "models"} {
		arr, ok := v[k].([]any)
		if !ok {
			continue
		}
		for _, it := range arr {
			m, ok := it.(map[string]any)
			if !ok {
				continue
			}
			for _, f := range []string{"id", "name", "model"} {
				if s, ok := m[f].(string); ok && s != "" {
					out = append(out, s)
					break
				}
			}
		}
	}
	sort.Strings(out)
	return out
}

func runDeployment(d *Deployment, rt routes, prefixes []string, c *vlib.Cases, pathsFor func(prefix string) []string) {
	// a deployment that does not come up (ephemeral port taken between probe and listen, model
	// discovery timing out on a loaded machine) is retried on a fresh stack before it is reported
	var last string
	for try := 0; try < 4; try++ {
		if last = runDeployment1(d, rt, prefixes, c, pathsFor); last == "" {
			return
		}
		time.Sleep(100 * time.Millisecond)
	}
	c.Emit(map[string]any{"kind": "start-error", "eps": d.EPs, "impl": map[string]any{"start_err": last}})
}

func runDeployment1(d *Deployment, rt routes, prefixes []string, c *vlib.Cases, pathsFor func(prefix string) []string) string {
	var eps []stack.EP
	var backends []*stack.Backend
	for i := range d.EPs {
		e := d.EPs[i]
		b := stack.NewBackend(e.Name)
		ty, ms := e.Type, e.Models
		b.Listing = func(path string) (int, string) {
			if strings.HasSuffix(path, "/models") || strings.HasSuffix(path, "/tags") {
				return 200, listingBody(ty, ms)
			}
			return 0, ""
		}
		backends = append(backends, b)
		eps = append(eps, stack.EP{Name: e.Name, Type: e.Type, Priority: e.Prio, Backend: b})
	}
	var first []stack.EP
	for _, sh := range d.Shadowed {
		if sh.Of < len(backends) {
			first = append(first, stack.EP{Name: sh.Name, Type: sh.Type, Priority: d.EPs[sh.Of].Prio, Backend: backends[sh.Of]})
		}
	}
	eps = append(first, eps...)
	defer func() {
		for _, b := range backends {
			b.Close()
		}
	}()
	s, err := stack.Start(stack.Opts{Vary: stack.VaryForJSON("c11", d), Engine: "sherpa", Balancer: "priority", EPs: eps, ModelDiscovery: true, Mutate: func(cfg *config.Config) {
		for i := range cfg.Discovery.Static.Endpoints {
			cfg.Discovery.Static.Endpoints[i].ModelURL = "" // profile default discovery path
		}
		// the provider constraint must hold under every routing strategy an operator may configure
		if os.Getenv("VERIF_C11_PLAIN") != "" || stack.VaryForJSON("c11.plain", d)%5 == 1 { // a tenth of the deployments without the unifier
			cfg.ModelRegistry.EnableUnifier = false
		}
		// (fallback "all" means: every healthy endpoint THE ROUTE ALLOWS)
		switch (len(d.EPs) + len(d.Shadowed) + len(d.EPs[0].Models)) % 6 {
		case 1:
			cfg.ModelRegistry.RoutingStrategy.Type = "discovery"
			cfg.ModelRegistry.RoutingStrategy.Options.DiscoveryRefreshOnMiss = true
			cfg.ModelRegistry.RoutingStrategy.Options.FallbackBehavior = "compatible_only"
		case 2:
			cfg.ModelRegistry.RoutingStrategy.Type = "optimistic"
			cfg.ModelRegistry.RoutingStrategy.Options.FallbackBehavior = "compatible_only"
		case 3:
			cfg.ModelRegistry.RoutingStrategy.Type = "discovery"
			cfg.ModelRegistry.RoutingStrategy.Options.DiscoveryRefreshOnMiss = true
			cfg.ModelRegistry.RoutingStrategy.Options.FallbackBehavior = "all"
		case 4:
			cfg.ModelRegistry.RoutingStrategy.Type = "optimistic"
			cfg.ModelRegistry.RoutingStrategy.Options.FallbackBehavior = "all"
		case 5:
			cfg.ModelRegistry.RoutingStrategy.Type = "discovery"
			cfg.ModelRegistry.RoutingStrategy.Options.DiscoveryRefreshOnMiss = false
			cfg.ModelRegistry.RoutingStrategy.Options.FallbackBehavior = "none"
		}
	}})
	if err != nil {
		return err.Error()
	}
	defer s.Stop()
	// wait until every endpoint is healthy and every model is in the catalogue
	want := map[string]bool{}
	for _, e := range d.EPs {
		for _, m := range e.Models {
			want[m] = true
		}
	}
	deadline := time.Now().Add(6 * time.Second)
	ready := false
	for time.Now().Before(deadline) {
		ok := true
		for _, st := range s.Statuses() {
			if st != "healthy" {
				ok = false
			}
		}
		if ok {
			r := stack.Do(s.Addr, stack.Request("GET", "/olla/models?include_unavailable=true", "x", nil, nil, false), 2*time.Second)
			body := string(r.Body)
			for m := range want {
				if !strings.Contains(body, `"`+m+`"`) {
					ok = false
				}
			}
		}
		if ok {
			ready = true
			break
		}
		time.Sleep(40 * time.Millisecond)
	}
	if !ready {
		return fmt.Sprintf("deployment not ready: statuses %v", s.Statuses())
	}
	for _, e := range d.EPs {
		if !e.Healthy {
			s.SetStatus(e.Name, domain.StatusOffline)
		}
	}
	for _, b := range backends {
		b.Taken()
	}
	var models []string
	models = append(models, "")
	for _, e := range d.EPs {
		models = append(models, e.Models...)
	}
	models = append(models, "zz-nobody-lists-this")
	for _, p := range prefixes {
		for _, sub := range pathsFor(p) {
			for _, m := range models {
				body := `{"messages":[{"role":"user","content":"hi"}],"prompt":"hi"}`
				if m != "" {
					body = fmt.Sprintf(`{"model":%q,"messages":[{"role":"user","content":"hi"}],"prompt":"hi"}`, m)
				}
				r := stack.Do(s.Addr, stack.Request("POST", "/olla/"+p+sub, "x", [][2]string{{"Content-Type", "application/json"}}, []byte(body), false), 5*time.Second)
				o := obs{Status: r.Status, Err: r.Err, Contacted: []string{}}
				for _, b := range backends {
					for range b.Taken() {
						o.Contacted = append(o.Contacted, b.Name)
					}
				}
				o.Body = string(r.Body)
				if len(o.Body) > 100 {
					o.Body = o.Body[:100]
				}
				c.Count("proxy." + p)
				c.Emit(map[string]any{"kind": "proxy", "prefix": p, "eps": d.EPs, "shadowed": d.Shadowed, "path": sub, "model": m, "impl": o})
			}
		}
		var subs []string
		for _, sub := range rt.listing[p] {
			// the listing routes as registered, and the spellings clients produce by joining a base URL and a path: a
			// trailing slash, a query.  Whatever route ends up serving them, the answer names this provider's models only
			subs = append(subs, sub, sub+"/", sub+"?limit=5")
		}
		for _, sub := range subs {
			r := stack.Do(s.Addr, stack.Request("GET", "/olla/"+p+sub, "x", nil, nil, false), 5*time.Second)
			o := obs{Status: r.Status, Err: r.Err, Contacted: []string{}, IDs: extractIDs(r.Body)}
			if o.IDs == nil {
				o.IDs = []string{}
			}
			for _, b := range backends {
				for range b.Taken() {
					o.Contacted = append(o.Contacted, b.Name)
				}
			}
			c.Count("listing." + p)
			c.Emit(map[string]any{"kind": "listing", "prefix": p, "eps": d.EPs, "path": sub, "model": "", "impl": o})
		}
	}
	return ""
}

// crossfire: two healthy endpoints of different providers; many clients at once, half on one provider's prefix, half on
// the other's, request shapes that fit their own provider only by fallback (no model, a path of the other provider).
// Every request carries a number in its query; each backend records what reached it.
func crossfire(types [2]string, rounds, clients int) map[string]any {
	var bes [2]*stack.Backend
	var eps []stack.EP
	for i, t := range types {
		bes[i] = stack.NewBackend(fmt.Sprintf("X%d", i))
		defer bes[i].Close()
		bes[i].KeepBodies = false
		bes[i].SetBehaviour(stack.Behaviour{Kind: "ok", Status: 200, Headers: [][2]string{{"Content-Type", "application/json"}}, Body: []byte(`{"ok":true}`)})
		eps = append(eps, stack.EP{Name: bes[i].Name, Type: t, Priority: 100, Backend: bes[i]})
	}
	s, err := stack.Start(stack.Opts{Vary: stack.VaryFor("c11.crossfire", types), Engine: "sherpa", Balancer: "priority", EPs: eps})
	if err != nil {
		return map[string]any{"start_err": err.Error()}
	}
	defer s.Stop()
	for _, b := range bes {
		s.SetStatus(b.Name, domain.StatusHealthy)
	}
	paths := []string{"api/generate", "v1/chat/completions", "api/chat", "v1/completions"}
	vlib.Breadcrumb(map[string]any{"kind": "crossfire", "types": types, "rounds": rounds, "clients": clients})
	total, strays, first := 0, 0, ""
	for r := 0; r < rounds; r++ {
		var wg sync.WaitGroup
		want := map[string]int{}
		var wmu sync.Mutex
		for k := 0; k < clients; k++ {
			wg.Add(1)
			go func(k int) {
				defer wg.Done()
				id := fmt.Sprintf("n=%d-%d", r, k)
				// three quarters: no body (so no model) on a path that is not this provider's own — the shape that reaches the
				// filter's widest fallback; the rest: assorted paths with a body
				target := "/olla/" + types[k%2] + "/api/generate?" + id
				var body []byte
				if (k/2)%4 == 3 {
					target = "/olla/" + types[k%2] + "/" + paths[(k/2+r)%len(paths)] + "?" + id
					body = []byte(`{"prompt":"hi"}`)
				}
				stack.Do(s.Addr, stack.Request("POST", target, s.Addr, [][2]string{{"Content-Type", "application/json"}}, body, false), 5*time.Second)
				wmu.Lock()
				want[id] = k % 2
				wmu.Unlock()
			}(k)
		}
		wg.Wait()
		for i, b := range bes {
			for _, sn := range b.Taken() {
				total++
				if w, ok := want[sn.RawQuery]; ok && w != i {
					strays++
					if first == "" {
						first = fmt.Sprintf("round %d: POST /olla/%s%s?%s reached the %s backend", r, types[w], sn.Path, sn.RawQuery, types[i])
					}
				}
			}
		}
	}
	return map[string]any{"requests_seen": total, "strays": strays, "first": first, "rounds": rounds, "clients": clients}
}

func main() {
	tier := vlib.Tier()
	r := vlib.NewRng(vlib.Seed())
	c := vlib.OpenCases("cases.jsonl")
	rt := routeTable()
	pf, err := profile.NewFactoryWithDefaults()
	if err != nil {
		fmt.Fprintln(os.Stderr, "c11: profile loader:", err)
		os.Exit(3)
	}
	// endpoint types "drawn from the shipped profiles": every profile name (+ auto); the alias
	// spellings the configuration also accepts are added as extra singles / partners.
	types := append([]string{"auto"}, pf.GetAvailableProfiles()...)
	types = append(types, domain.ProfileOpenAICompatible)
	aliases := []string{}
	for _, p := range rt.proxyPrefixes {
		known := false
		for _, t := range types {
			if t == p {
				known = true
			}
		}
		if !known && pf.ValidateProfileType(p) {
			aliases = append(aliases, p)
		}
	}
	mk := func(ts []string, down int) *Deployment {
		d := &Deployment{}
		for i, t := range ts {
			n := fmt.Sprintf("E%d", i)
			d.EPs = append(d.EPs, EPx{Name: n, Type: t, Prio: 300 - 100*i, Healthy: i != down, Models: []string{fmt.Sprintf("zzmodel-%s-%d", strings.ToLower(n), r.Intn(1000))}})
		}
		return d
	}
	var deps []*Deployment
	if rp := vlib.ReplayPath(); rp != "" {
		var rep struct {
			FailingCase struct {
				EPs      []EPx    `json:"eps"`
				Shadowed []Shadow `json:"shadowed"`
			} `json:"failing_case"`
		}
		b, _ := os.ReadFile(rp)
		json.Unmarshal(b, &rep)
		deps = append(deps, &Deployment{EPs: rep.FailingCase.EPs, Shadowed: rep.FailingCase.Shadowed})
	} else {
		// the design-time witness first: only an ollama endpoint, request under /olla/vllm/
		deps = append(deps, mk([]string{"ollama"}, -1))
		for _, t := range append(append([]string{}, types...), aliases...) {
			if t != "ollama" {
				deps = append(deps, mk([]string{t}, -1))
			}
		}
		all := append(append([]string{}, types...), aliases...)
		for i := 0; i < len(all); i++ {
			for j := i; j < len(all); j++ {
				if i == j && !(tier == "thorough" || r.Chance(1, 3)) {
					continue
				}
				// pairs among profile names are exhaustive; pairs with an alias spelling are sampled in quick
				isAlias := i >= len(types) || j >= len(types)
				if isAlias && tier != "thorough" && !r.Chance(1, 4) {
					continue
				}
				ts := []string{all[i], all[j]}
				if r.Bool() {
					ts[0], ts[1] = ts[1], ts[0]
				}
				deps = append(deps, mk(ts, -1))
				// the same pair with one endpoint unhealthy
				if tier == "thorough" || r.Chance(1, 4) {
					deps = append(deps, mk(ts, r.Intn(2)))
				}
			}
		}
		// one machine listed twice under different types (an operator who wants it reachable as ollama and as
		// openai-compatible): it is still not a vllm / sglang / ... endpoint
		for _, pr := range [][3]string{{"ollama", "openai-compatible", "vllm"}, {"openai-compatible", "ollama", "vllm"}, {"lm-studio", "vllm", "ollama"}, {"ollama", "lm-studio", "sglang"}} {
			d := mk([]string{pr[1], pr[2]}, 1)
			d.Shadowed = []Shadow{{Name: "E0-as-" + pr[0], Type: pr[0], Of: 0}}
			deps = append(deps, d)
			d2 := mk([]string{pr[2], pr[1]}, -1) // the third provider healthy, with lower priority than the shared machine
			d2.EPs[0].Prio, d2.EPs[1].Prio = 100, 300
			d2.Shadowed = []Shadow{{Name: "E1-as-" + pr[0], Type: pr[0], Of: 1}}
			deps = append(deps, d2)
		}
		// everything down
		deps = append(deps, mk([]string{"vllm"}, 0))
		ntr := 12
		if tier == "thorough" {
			ntr = 150
		}
		for k := 0; k < ntr; k++ {
			ts := []string{vlib.Pick(r, all), vlib.Pick(r, all), vlib.Pick(r, all)}
			down := -1
			if r.Chance(1, 3) {
				down = r.Intn(3)
			}
			deps = append(deps, mk(ts, down))
		}
	}
	// per deployment every prefix; paths: all five for a rotating subset of prefixes in quick, chat for the rest
	var mu sync.Mutex
	_ = mu
	work := func(i int) {
		d := deps[i]
		sel := i
		runDeployment(d, rt, rt.proxyPrefixes, c, func(p string) []string {
			if tier == "thorough" || len(deps) == 1 {
				return postPaths
			}
			// quick: every prefix gets chat completions + one rotating other path
			sel++
			return []string{postPaths[0], postPaths[1+sel%(len(postPaths)-1)]}
		})
	}
	var wg sync.WaitGroup
	sem := make(chan struct{}, 10)
	for i := range deps {
		wg.Add(1)
		sem <- struct{}{}
		go func(i int) {
			defer wg.Done()
			defer func() { <-sem }()
			work(i)
		}(i)
	}
	wg.Wait()
	if vlib.ReplayPath() == "" {
		for _, pair := range [][2]string{{"vllm", "ollama"}, {"lm-studio", "vllm"}} {
			for _, engine := range []string{"olla", "sherpa"} {
				c.Emit(map[string]any{"kind": "breaker-scope", "types": pair, "impl": breakerScopeCase(engine, pair)})
				c.Count("breaker-scope." + engine)
			}
			c.Emit(map[string]any{"kind": "crossfire", "types": pair, "impl": crossfire(pair, map[bool]int{false: 500, true: 4000}[tier == "thorough"], 48)})
			c.Count("crossfire")
		}
	}
	c.Close(map[string]any{"exhaustive": true, "deployments": len(deps),
		"exhaustive_note": "every provider prefix the router registers x every single endpoint type and every unordered pair of types drawn from the shipped profile names (+auto); alias spellings (dmr, lmstudio, lm_studio) as singles and sampled partners; triples sampled; per deployment every prefix x {chat + one rotating path (quick) | all five paths (thorough)} x {no model, each endpoint's model, a model nobody lists} + every model-listing route"})
}
