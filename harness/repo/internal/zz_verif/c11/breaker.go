//go:build verif

package main

import (
	"time"

	"github.com/thushan/olla/internal/core/domain"
	"github.com/thushan/olla/internal/zz_verif/stack"
)

// breakerScopeCase: the olla engine, one endpoint of the provider and one of another, incompatible provider.  The
// provider's endpoint fails often enough for the engine's breaker to open, is reported healthy again, and while the breaker
// is still open a request arrives on the provider's prefix.  Whatever the engine does about the skipped candidate, the
// other provider's backend is not contacted (C11: "no backend of another kind is contacted").
func breakerScopeCase(engine string, types [2]string) map[string]any {
	p, o := stack.NewBackend("P"), stack.NewBackend("O")
	defer p.Close()
	defer o.Close()
	ok := stack.Behaviour{Kind: "ok", Status: 200, Headers: [][2]string{{"Content-Type", "application/json"}}, Body: []byte(`{"ok":true}`)}
	o.SetBehaviour(ok)
	s, err := stack.Start(stack.Opts{Vary: stack.VaryFor("c11.breaker", engine, types), Engine: engine, Balancer: "priority",
		EPs: []stack.EP{{Name: "P", Type: types[0], Priority: 100, Backend: p}, {Name: "O", Type: types[1], Priority: 50, Backend: o}}})
	if err != nil {
		return map[string]any{"start_err": err.Error()}
	}
	defer s.Stop()
	path := "/olla/" + types[0] + "/v1/chat/completions"
	send := func() *stack.Resp {
		return stack.Do(s.Addr, stack.Request("POST", path, s.Addr, [][2]string{{"Content-Type", "application/json"}}, []byte(`{"messages":[]}`), false), 3*time.Second)
	}
	// failures that leave the endpoint routable (answers that are no HTTP) until the breaker stops contacting it
	p.SetBehaviour(stack.Behaviour{Kind: "close0"})
	primed := 0
	for i := 0; i < 12; i++ {
		before := p.Count()
		send()
		s.SetStatus("P", domain.StatusHealthy)
		if p.Count() == before {
			break
		}
		primed++
	}
	strayWhilePriming := o.Count()
	p.SetBehaviour(ok)
	p.Taken()
	o.Taken()
	s.SetStatus("P", domain.StatusHealthy)
	s.SetStatus("O", domain.StatusHealthy)
	r := send()
	return map[string]any{"engine": engine, "primed": primed, "stray_while_priming": strayWhilePriming, "status": r.Status, "p_hits": p.Count(), "o_hits": o.Count()}
}
