//go:build verif

// gen_urls renders Olla/Gen/Urls.lean: the prefix both engines hand to BuildTargetURL in the
// production wiring, the provider route prefixes the shipped profiles (loaded by the real
// profile loader, cwd /repo) give rise to, and the default health / model-listing paths the
// repository resolves against endpoint URLs.
package main

import (
	"fmt"
	"os"
	"sort"
	"strings"

	"github.com/thushan/olla/internal/adapter/proxy"
	"github.com/thushan/olla/internal/adapter/registry/profile"
	"github.com/thushan/olla/internal/core/constants"
	"github.com/thushan/olla/internal/zz_verif/vlib"
)

func chars(s string) string {
	if s == "" {
		return "[]"
	}
	var items []string
	for _, r := range s {
		switch r {
		case '\'':
			items = append(items, `'\''`)
		case '\\':
			items = append(items, `'\\'`)
		default:
			if r < 0x20 || r == 0x7f {
				items = append(items, "(Char.ofNat "+vlib.LeanNat(uint64(r))+")")
			} else {
				items = append(items, "'"+string(r)+"'")
			}
		}
	}
	return "[" + strings.Join(items, ",") + "]"
}

func charsList(xs []string) string {
	out := make([]string, len(xs))
	for i, x := range xs {
		out[i] = chars(x)
	}
	return vlib.LeanList(out)
}

func main() {
	const ns = "Olla.Gen.Urls"
	f := vlib.NewLeanFile(ns, "gen_urls")
	f.Def("proxyPrefixProduction", "List Char", chars((&proxy.Configuration{}).GetProxyPrefix()),
		"what services.ProxyServiceWrapper's configuration (ProxyPrefix \"\") makes both engines pass to BuildTargetURL as proxyPrefix")
	f.Def("ollaPathPrefix", "List Char", chars(constants.DefaultOllaProxyPathPrefix), "constants.DefaultOllaProxyPathPrefix")

	fac, err := profile.NewFactoryWithDefaults()
	if err != nil {
		fmt.Fprintln(os.Stderr, "gen_urls: profile loader:", err)
		os.Exit(1)
	}
	seen := map[string]bool{}
	var prefixes []string
	type paths struct{ name, health, models string }
	var defaults []paths
	all := fac.GetLoader().GetAllProfiles()
	names := make([]string, 0, len(all))
	for n := range all {
		names = append(names, n)
	}
	sort.Strings(names)
	for _, n := range names {
		cfg := all[n].GetConfig()
		if cfg == nil {
			continue
		}
		for _, p := range append([]string{n}, cfg.Routing.Prefixes...) {
			// handlers strip constants.DefaultOllaProxyPathPrefix + <prefix used in the URL>
			full := constants.DefaultOllaProxyPathPrefix + p
			if !seen[full] {
				seen[full] = true
				prefixes = append(prefixes, full)
			}
		}
		defaults = append(defaults, paths{n, cfg.API.HealthCheckPath, cfg.API.ModelDiscoveryPath})
	}
	sort.Strings(prefixes)
	f.Def("providerPrefixes", "List (List Char)", charsList(prefixes),
		"route prefixes providerProxyHandler strips: DefaultOllaProxyPathPrefix + every routing prefix / profile name of the shipped profiles")
	var rows []string
	for _, d := range defaults {
		rows = append(rows, vlib.LeanTuple(vlib.LeanStr(d.name), chars(d.health), chars(d.models)))
	}
	f.Def("profilePaths", "List (String × List Char × List Char)", vlib.LeanList(rows),
		"(profile, api.health_check_path, api.model_discovery_path) of the shipped profiles: the relative paths the repository resolves against an endpoint URL when the endpoint config gives none")
	f.Write(ns)
}
