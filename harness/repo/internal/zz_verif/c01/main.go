//go:build verif

// c01: requests reach the backend exactly as the client sent them.
//  - "ops": the real BodyInspector (pooled peek buffer) and the real RetryHandler body preservation,
//    driven with interleaved op sequences `inspect i` / `read i` / `exec i` on one goroutine — the
//    granularity at which buffer aliasing is observable from outside.
//  - "strip": util.StripPrefix on generated (path, prefix) pairs.
//  - "stack": N concurrent clients through the production stack on both engines; the backend echoes
//    what it received (method, path, query, sha256 of the body).
package main

import (
	"os"
	"github.com/thushan/olla/internal/config"
	"bytes"
	"context"
	"crypto/sha256"
	"encoding/hex"
	"encoding/json"
	"fmt"
	"io"
	"net"
	"net/http"
	"regexp"
	"runtime"
	"strings"
	"sync"
	"sync/atomic"
	"syscall"
	"time"

	"github.com/thushan/olla/internal/adapter/inspector"
	"github.com/thushan/olla/internal/adapter/proxy/core"
	"github.com/thushan/olla/internal/core/domain"
	"github.com/thushan/olla/internal/core/ports"
	"github.com/thushan/olla/internal/util"
	"github.com/thushan/olla/internal/zz_verif/scen"
	"github.com/thushan/olla/internal/zz_verif/stack"
	"github.com/thushan/olla/internal/zz_verif/vlib"
)

var stackModels = false

type reqSpec struct {
	Model   string `json:"model"`
	Len     int    `json:"len"`
	JSON    bool   `json:"json"`    // Content-Type: application/json
	Chunked bool   `json:"chunked"` // ContentLength -1
	SHA     string `json:"sha"`
	Head    string `json:"head_hex"` // first 64 bytes
	BodyHex string `json:"body_hex,omitempty"` // whole body when <= 4 KiB (the byte-level model runs on these)
	body    []byte
}

func mkBody(r *vlib.Rng, i int, n int, js bool) (string, []byte) {
	model := fmt.Sprintf("Model-%d-%d", i, r.Intn(1000))
	if stackModels {
		model = fmt.Sprintf("model-%d", r.Intn(8))
	}
	if !js {
		b := make([]byte, n)
		for j := range b {
			b[j] = byte('a' + (i*7+j)%23)
		}
		return "", b
	}
	prefix := fmt.Sprintf(`{"model":"%s","req":%d,"pad":"`, model, i)
	suffix := `"}`
	pad := n - len(prefix) - len(suffix)
	if pad < 0 {
		pad = 0
	}
	b := []byte(prefix + strings.Repeat(string(rune('A'+i%26)), pad) + suffix)
	return strings.ToLower(model), b
}

type op struct {
	Op string `json:"op"` // inspect | read | exec
	I  int    `json:"i"`
}

type opObs struct {
	Op     string `json:"op"`
	I      int    `json:"i"`
	Model  string `json:"model,omitempty"`   // inspect: profile.ModelName
	SHA    string `json:"sha,omitempty"`     // read: sha256 of what came out of r.Body
	Len    int    `json:"len,omitempty"`
	Head   string `json:"head_hex,omitempty"`
	Hex    string `json:"hex,omitempty"` // read: the bytes themselves when <= 4 KiB
	Att    []string `json:"attempts,omitempty"` // exec: sha of the body each attempt saw
}

type connErr struct{}

func (connErr) Error() string   { return "dial tcp: connection refused" }
func (connErr) Timeout() bool   { return false }
func (connErr) Temporary() bool { return false }

var _ net.Error = connErr{}
var _ = syscall.ECONNREFUSED

type nopDisc struct{}

func (nopDisc) GetEndpoints(context.Context) ([]*domain.Endpoint, error)        { return nil, nil }
func (nopDisc) GetHealthyEndpoints(context.Context) ([]*domain.Endpoint, error) { return nil, nil }
func (nopDisc) RefreshEndpoints(context.Context) error                           { return nil }
func (nopDisc) UpdateEndpointStatus(context.Context, *domain.Endpoint) error     { return nil }

type firstSel struct{}

func (firstSel) Name() string { return "first" }
func (firstSel) Select(_ context.Context, eps []*domain.Endpoint) (*domain.Endpoint, error) {
	return eps[0], nil
}
func (firstSel) IncrementConnections(*domain.Endpoint) {}
func (firstSel) DecrementConnections(*domain.Endpoint) {}

type nullW struct{ h http.Header }

func (w nullW) Header() http.Header         { return w.h }
func (w nullW) WriteHeader(int)             {}
func (w nullW) Write(b []byte) (int, error) { return len(b), nil }

func sha(b []byte) string { s := sha256.Sum256(b); return hex.EncodeToString(s[:]) }
func head(b []byte) string {
	if len(b) > 64 {
		b = b[:64]
	}
	return hex.EncodeToString(b)
}

func opsCase(c *vlib.Cases, bi *inspector.BodyInspector, specs []reqSpec, ops []op) {
	runtime.LockOSThread()
	defer runtime.UnlockOSThread()
	reqs := make([]*http.Request, len(specs))
	for i := range specs {
		if len(specs[i].body) <= 4096 {
			specs[i].BodyHex = hex.EncodeToString(specs[i].body)
		}
	}
	for i, s := range specs {
		r, _ := http.NewRequest("POST", "http://olla/olla/proxy/v1/chat/completions", io.NopCloser(bytes.NewReader(s.body)))
		r.ContentLength = int64(len(s.body))
		if s.Chunked {
			r.ContentLength = -1
		}
		if s.JSON {
			r.Header.Set("Content-Type", "application/json")
		} else {
			r.Header.Set("Content-Type", "application/octet-stream")
		}
		reqs[i] = r
	}
	rh := core.NewRetryHandler(nopDisc{}, vlib.QuietLogger())
	var out []opObs
	for _, o := range ops {
		switch o.Op {
		case "inspect":
			p := domain.NewRequestProfile("/v1/chat/completions")
			bi.Inspect(context.Background(), reqs[o.I], p)
			out = append(out, opObs{Op: "inspect", I: o.I, Model: p.ModelName})
		case "read":
			b, _ := io.ReadAll(reqs[o.I].Body)
			ob := opObs{Op: "read", I: o.I, SHA: sha(b), Len: len(b), Head: head(b)}
			if len(b) <= 4096 {
				ob.Hex = hex.EncodeToString(b)
			}
			out = append(out, ob)
		case "exec":
			var att []string
			eps := []*domain.Endpoint{{Name: "a", URLString: "http://a:1", CheckInterval: time.Second}, {Name: "b", URLString: "http://b:1", CheckInterval: time.Second}}
			n := 0
			pf := func(ctx context.Context, w http.ResponseWriter, r *http.Request, e *domain.Endpoint, st *ports.RequestStats) error {
				b, _ := io.ReadAll(r.Body)
				att = append(att, sha(b))
				n++
				if n == 1 {
					return fmt.Errorf("network error - %w", connErr{})
				}
				w.WriteHeader(200)
				return nil
			}
			rh.ExecuteWithRetry(context.Background(), nullW{http.Header{}}, reqs[o.I], eps, firstSel{}, &ports.RequestStats{StartTime: time.Now()}, pf)
			out = append(out, opObs{Op: "exec", I: o.I, Att: att})
		}
	}
	c.Emit(map[string]any{"kind": "ops", "reqs": specs, "ops": ops, "impl": map[string]any{"obs": out}})
}

// all interleavings of per-request op chains
func interleavings(chains [][]op) [][]op {
	total := 0
	for _, ch := range chains {
		total += len(ch)
	}
	if total == 0 {
		return [][]op{{}}
	}
	var out [][]op
	for i, ch := range chains {
		if len(ch) == 0 {
			continue
		}
		rest := make([][]op, len(chains))
		copy(rest, chains)
		rest[i] = ch[1:]
		for _, tail := range interleavings(rest) {
			out = append(out, append([]op{ch[0]}, tail...))
		}
	}
	return out
}

func mkSpecs(r *vlib.Rng, k int, sizes []int) []reqSpec {
	specs := make([]reqSpec, k)
	for i := range specs {
		n := vlib.Pick(r, sizes)
		js := !r.Chance(1, 8)
		m, b := mkBody(r, i, n, js)
		specs[i] = reqSpec{Model: m, Len: len(b), JSON: js, Chunked: r.Chance(1, 3), SHA: sha(b), Head: head(b), body: b}
		if len(b) == 0 {
			specs[i].Chunked = false
		}
	}
	return specs
}

// ---------------------------------------------------------------- stack

type echo struct {
	Method string `json:"method"`
	Path   string `json:"path"`
	Query  string `json:"query"`
	SHA    string `json:"sha"`
	Len    int    `json:"len"`
	Backend string `json:"backend"`
	XModel  string `json:"xmodel"`
}

func stackBurst(c *vlib.Cases, r *vlib.Rng, engine string, n int, prefix, epType, base string, preserve bool) {
	inspDir := ""
	b := stack.NewBackend("A")
	b.KeepBodies = false
	defer b.Close()
	b.SetScript(func(_ int, s *stack.Seen) stack.Behaviour {
		xm := ""
		if v := s.Header["X-Model"]; len(v) > 0 {
			xm = strings.Join(v, ",")
		}
		js, _ := json.Marshal(echo{Method: s.Method, Path: s.Path, Query: s.RawQuery, SHA: s.BodySHA, Len: s.BodyLen, Backend: "A", XModel: xm})
		return stack.Behaviour{Kind: "ok", Status: 200, Headers: [][2]string{{"Content-Type", "application/json"}}, Body: js}
	})
	b.Listing = func(p string) (int, string) {
		if !strings.HasSuffix(p, "/v1/models") {
			return 0, ""
		}
		var ids, names []string
		for k := 0; k < 8; k++ {
			ids = append(ids, fmt.Sprintf(`{"id":"model-%d","object":"model"}`, k))
			names = append(names, fmt.Sprintf(`{"name":"model-%d","model":"model-%d"}`, k, k))
		}
		if epType == "ollama" {
			return 200, `{"models":[` + strings.Join(names, ",") + `]}`
		}
		return 200, `{"object":"list","data":[` + strings.Join(ids, ",") + `]}`
	}
	// the Anthropic route with a backend that speaks the Messages API itself: passthrough, no translation
	anthPT := prefix == "/olla/anthropic/"
	s, err := stack.Start(stack.Opts{Vary: stack.VaryFor("c01.burst", engine, prefix, epType, base, preserve), Engine: engine, Balancer: "priority", ModelDiscovery: true, EPs: []stack.EP{{Name: "A", Type: epType, Priority: 1, Backend: b, BasePath: base, Preserve: preserve}},
		Mutate: func(cfg *config.Config) {
			if anthPT {
				cfg.Translators.Anthropic.Enabled = true
				cfg.Translators.Anthropic.PassthroughEnabled = true
				if n%2 == 0 { // the debugging inspector logs requests; it must not touch them
					if dir, err := os.MkdirTemp(vlib.OutDir(), "inspector"); err == nil {
						inspDir = dir
						cfg.Translators.Anthropic.Inspector = config.InspectorConfig{Enabled: true, OutputDir: dir, SessionHeader: "X-Session-ID"}
					}
				}
			}
		}})
	if inspDir != "" {
		defer os.RemoveAll(inspDir)
	}
	if err != nil {
		c.Emit(map[string]any{"kind": "stack", "impl": map[string]any{"start_err": err.Error()}})
		return
	}
	defer s.Stop()
	type sent struct {
		Method  string `json:"method"`
		Target  string `json:"target"`
		Rest    string `json:"rest"` // path after the route prefix
		Query   string `json:"query"`
		SHA     string `json:"sha"`
		Len     int    `json:"len"`
		Chunked bool   `json:"chunked"`
		JSON    bool   `json:"json"`
		Status  int    `json:"status"`
		Err     string `json:"err"`
		Echo    *echo  `json:"echo"`
		Model   string `json:"model"`
	}
	// earlier clients whose upload broke off half way (declared length, half the body, connection closed): whatever the
	// handlers do with a failed body read must leave the requests that come after it alone
	for k := 0; k < 3; k++ {
		_, body := mkBody(r, 900+k, 20000+k*30000, true)
		if anthPT {
			_, body = mkAnthropicBody(r, 900+k, 20000+k*30000)
		}
		target := prefix + "v1/chat/completions"
		if anthPT {
			target = prefix + "v1/messages"
		}
		if conn, err := net.DialTimeout("tcp", s.Addr, 2*time.Second); err == nil {
			fmt.Fprintf(conn, "POST %s HTTP/1.1\r\nHost: %s\r\nContent-Type: application/json\r\nContent-Length: %d\r\n\r\n", target, s.Addr, len(body))
			conn.Write(body[:len(body)/2])
			time.Sleep(20 * time.Millisecond)
			conn.Close()
		}
	}
	time.Sleep(30 * time.Millisecond)
	b.Taken()
	res := make([]sent, n)
	var wg sync.WaitGroup
	sizes := []int{0, 1, 17, 300, 4096, 65536, 1<<20 - 1, 1 << 20, 1<<20 + 1, 3 << 20}
	rngs := make([]*vlib.Rng, n)
	for i := range rngs {
		rngs[i] = r.Fork()
	}
	for i := 0; i < n; i++ {
		wg.Add(1)
		go func(i int) {
			defer wg.Done()
			rr := rngs[i]
			size := sizes[rr.Intn(len(sizes))]
			if n > 16 && size > 1<<20 {
				size = 300 + rr.Intn(5000)
			}
			js := !rr.Chance(1, 6)
			model, body := mkBody(rr, i, size, js)
			if anthPT {
				if size > 1<<20 {
					size = 300 + rr.Intn(200000)
				}
				js = true
				model, body = mkAnthropicBody(rr, i, size)
			}
			if js && !anthPT && rr.Chance(1, 10) {
				// a JSON document saved with a byte order mark (PowerShell, .NET): whether the model name is found behind it
				// is not the property's business ("*"), the bytes are
				body = append([]byte{0xEF, 0xBB, 0xBF}, body...)
				model = "*"
			}
			if (size > 1<<20 || len(body) > 1<<20) && !anthPT && model != "*" {
				model = "" // beyond the inspector's peek window the model is not extracted (the Anthropic route parses the whole body)
			}
			method := "POST"
			if rr.Chance(1, 10) {
				method = "PUT"
			}
			rest := vlib.Pick(rr, []string{"/v1/chat/completions", "/v1/completions", "/api/generate", "/x/y%20z", "/v1/embeddings", "/olla/openai/v1/chat/completions", "/olla/proxy/v1/x"}) // the last two: the backend is itself an Olla
			q := vlib.Pick(rr, []string{"", "a=1&b=%2F&c=x+y", "stream=true", "q=%7B%22k%22%3A1%7D&&z"})
			if anthPT {
				method, rest = "POST", "/v1/messages"
				q = vlib.Pick(rr, []string{"", "beta=true", "a=1&b=%2F"})
			}
			target := prefix + strings.TrimPrefix(rest, "/")
			if q != "" {
				target += "?" + q
			}
			ct := "application/json"
			if !js {
				ct = "application/octet-stream"
			}
			chunked := rr.Chance(1, 3) && len(body) > 0
			raw := stack.Request(method, target, s.Addr, [][2]string{{"Content-Type", ct}}, body, chunked)
			rp := stack.Do(s.Addr, raw, 20*time.Second)
			o := sent{Method: method, Target: target, Rest: rest, Query: q, SHA: sha(body), Len: len(body), Chunked: chunked, JSON: js, Status: rp.Status, Err: rp.Err, Model: model}
			var e echo
			if json.Unmarshal(rp.Body, &e) == nil && e.Backend != "" {
				o.Echo = &e
			}
			res[i] = o
		}(i)
	}
	wg.Wait()
	c.Emit(map[string]any{"kind": "stack", "engine": engine, "clients": n, "prefix": prefix, "type": epType, "base": base, "preserve": preserve, "impl": map[string]any{"requests": res}})
}

// mkAnthropicBody: a Messages API request of about `size` bytes whose text is what people paste into a chat: prose,
// shell commands, environment files with keys and tokens in them
func mkAnthropicBody(r *vlib.Rng, i int, size int) (string, []byte) {
	model := fmt.Sprintf("model-%d", r.Intn(8))
	snippets := []string{"hello ", "export OPENAI_API_KEY=sk-proj-" + fmt.Sprintf("%032x", r.U64()) + "\n", "curl -H 'Authorization: Bearer " + fmt.Sprintf("%040x", r.U64()) + "' https://x\n",
		"AKIA" + strings.ToUpper(fmt.Sprintf("%016x", r.U64())) + " ", "ghp_" + fmt.Sprintf("%036x", r.U64()) + " ", "password=hunter2 ", "sk-ant-api03-" + fmt.Sprintf("%048x", r.U64()) + " ",
		"\u00e9\u4e16 ", "{\"nested\":[1,2]} ", fmt.Sprintf("nonce-%012x ", r.U64()&0xffffffffffff)}
	var sb strings.Builder
	for sb.Len() < size {
		sb.WriteString(vlib.Pick(r, snippets))
	}
	msgs := []any{map[string]any{"role": "user", "content": sb.String()}}
	if r.Bool() {
		msgs = []any{map[string]any{"role": "user", "content": []any{map[string]any{"type": "text", "text": sb.String()}}}}
	}
	m := map[string]any{"model": model, "max_tokens": 64, "messages": msgs, "metadata": map[string]any{"user_id": fmt.Sprintf("client-%d", i)}}
	if r.Bool() {
		m["system"] = "be brief " + vlib.Pick(r, snippets)
	}
	body, _ := json.Marshal(m)
	return model, body
}

var nonceRe = regexp.MustCompile(`nonce-[0-9a-f]+`)

// stackBigFailover: a large upload with a declared length; the preferred endpoint consumes part of it and resets the
// connection before answering; the next endpoint must still receive the whole body, byte for byte.
// bigJSON: the next big failover uploads are JSON documents (the body inspector peeks into those)
var bigJSON bool

// bigNoFailover: the big upload is served by the first endpoint it reaches (nothing aborts it)
var bigNoFailover bool

func stackBigFailover(c *vlib.Cases, r *vlib.Rng, engine string, size int, chunked bool) {
	a, b := stack.NewBackend("A"), stack.NewBackend("B")
	defer a.Close()
	defer b.Close()
	if bigNoFailover {
		a.Refuse() // B is the only endpoint that answers, and the first that is asked
	} else {
		atomic.StoreInt64(&a.AbortUploadAfter, int64(size/3+1))
	}
	b.KeepBodies = false
	b.SetScript(func(_ int, s *stack.Seen) stack.Behaviour {
		js, _ := json.Marshal(echo{Method: s.Method, Path: s.Path, Query: s.RawQuery, SHA: s.BodySHA, Len: s.BodyLen, Backend: "B"})
		return stack.Behaviour{Kind: "ok", Status: 200, Headers: [][2]string{{"Content-Type", "application/json"}}, Body: js}
	})
	s, err := stack.Start(stack.Opts{Vary: stack.VaryFor("c01.big", engine, size, chunked), Engine: engine, Balancer: "priority", EPs: []stack.EP{{Name: "A", Type: "openai", Priority: 300, Backend: a}, {Name: "B", Type: "openai", Priority: 100, Backend: b}}})
	if err != nil {
		c.Emit(map[string]any{"kind": "stack", "impl": map[string]any{"start_err": err.Error()}})
		return
	}
	defer s.Stop()
	_, body := mkBody(r, 0, size, bigJSON)
	q := "big=1"
	raw := stack.Request("POST", "/olla/proxy/v1/embeddings?"+q, s.Addr, [][2]string{{"Content-Type", map[bool]string{false: "application/octet-stream", true: "application/json"}[bigJSON]}}, body, chunked)
	rp := stack.Do(s.Addr, raw, 60*time.Second)
	type sent struct {
		Method  string `json:"method"`
		Target  string `json:"target"`
		Rest    string `json:"rest"`
		Query   string `json:"query"`
		SHA     string `json:"sha"`
		Len     int    `json:"len"`
		Chunked bool   `json:"chunked"`
		JSON    bool   `json:"json"`
		Status  int    `json:"status"`
		Err     string `json:"err"`
		Echo    *echo  `json:"echo"`
		Model   string `json:"model"`
	}
	o := sent{Method: "POST", Target: "/olla/proxy/v1/embeddings?" + q, Rest: "/v1/embeddings", Query: q, SHA: sha(body), Len: len(body), Chunked: chunked, Status: rp.Status, Err: rp.Err}
	var e echo
	if json.Unmarshal(rp.Body, &e) == nil && e.Backend != "" {
		o.Echo = &e
	}
	c.Emit(map[string]any{"kind": "stack", "engine": engine, "clients": 1, "prefix": "/olla/proxy/", "type": "openai", "base": "", "preserve": false,
		"failover_after_partial_upload": a.Count(), "impl": map[string]any{"requests": []sent{o}}})
}

// stackTranslated: N concurrent Anthropic requests that Olla translates to OpenAI chat requests
// ("...and likewise for translated requests"): every upstream body must carry its own client's
// nonces and model and nobody else's.
func stackTranslated(c *vlib.Cases, r *vlib.Rng, engine string, n int) {
	b := stack.NewBackend("A")
	defer b.Close()
	b.SetScript(func(_ int, s *stack.Seen) stack.Behaviour {
		var m struct {
			Model string `json:"model"`
		}
		json.Unmarshal(s.Body, &m)
		found := nonceRe.FindAllString(string(s.Body), -1)
		echo := strings.Join(found, ",") + "|" + m.Model + "|" + s.Path
		js, _ := json.Marshal(map[string]any{"id": "c1", "object": "chat.completion", "model": m.Model,
			"choices": []any{map[string]any{"index": 0, "finish_reason": "stop", "message": map[string]any{"role": "assistant", "content": echo}}},
			"usage":   map[string]any{"prompt_tokens": 1, "completion_tokens": 1, "total_tokens": 2}})
		return stack.Behaviour{Kind: "ok", Status: 200, Headers: [][2]string{{"Content-Type", "application/json"}}, Body: js}
	})
	b.Listing = func(p string) (int, string) {
		if !strings.HasSuffix(p, "/v1/models") {
			return 0, ""
		}
		var ids []string
		for k := 0; k < 8; k++ {
			ids = append(ids, fmt.Sprintf(`{"id":"model-%d","object":"model"}`, k))
		}
		return 200, `{"object":"list","data":[` + strings.Join(ids, ",") + `]}`
	}
	s, err := stack.Start(stack.Opts{Vary: stack.VaryFor("c01.translated", engine, n), Engine: engine, Balancer: "priority", ModelDiscovery: true, EPs: []stack.EP{{Name: "A", Type: "openai", Priority: 1, Backend: b}}})
	if err != nil {
		c.Emit(map[string]any{"kind": "xlate", "impl": map[string]any{"start_err": err.Error()}})
		return
	}
	defer s.Stop()
	type one struct {
		Want   string `json:"want"`
		Got    string `json:"got"`
		Status int    `json:"status"`
		Err    string `json:"err"`
	}
	res := make([]one, n)
	rngs := make([]*vlib.Rng, n)
	for i := range rngs {
		rngs[i] = r.Fork()
	}
	var wg sync.WaitGroup
	for i := 0; i < n; i++ {
		wg.Add(1)
		go func(i int) {
			defer wg.Done()
			rr := rngs[i]
			n1, n2 := fmt.Sprintf("nonce-%012x", rr.U64()&0xffffffffffff), fmt.Sprintf("nonce-%012x", rr.U64()&0xffffffffffff)
			model := fmt.Sprintf("model-%d", rr.Intn(8))
			pad := strings.Repeat("p", rr.Intn(400))
			body, _ := json.Marshal(map[string]any{"model": model, "max_tokens": 64, "system": "sys " + n1,
				"messages": []any{map[string]any{"role": "user", "content": "hello " + n2 + " " + pad}}})
			raw := stack.Request("POST", "/olla/anthropic/v1/messages", s.Addr, [][2]string{{"Content-Type", "application/json"}, {"anthropic-version", "2023-06-01"}}, body, false)
			rp := stack.Do(s.Addr, raw, 20*time.Second)
			o := one{Want: n1 + "," + n2 + "|" + model + "|/v1/chat/completions", Status: rp.Status, Err: rp.Err}
			var ar struct {
				Content []struct {
					Text string `json:"text"`
				} `json:"content"`
			}
			if json.Unmarshal(rp.Body, &ar) == nil && len(ar.Content) > 0 {
				o.Got = ar.Content[0].Text
			} else {
				o.Got = "unparsed:" + string(rp.Body[:min(len(rp.Body), 120)])
			}
			res[i] = o
		}(i)
	}
	wg.Wait()
	c.Emit(map[string]any{"kind": "xlate", "engine": engine, "clients": n, "impl": map[string]any{"requests": res}})
}

func main() {
	tier := vlib.Tier()
	r := vlib.NewRng(vlib.Seed())
	c := vlib.OpenCases("cases.jsonl")
	bi, err := inspector.NewBodyInspector(vlib.QuietLogger())
	if err != nil {
		panic(err)
	}
	small := []int{0, 2, 40, 41, 100, 100, 100, 300, 2000}
	big := []int{1<<20 - 1, 1 << 20, 1<<20 + 1, 3 << 20}

	// the known witness first: inspect A; inspect B; read A; read B with equal-length JSON bodies
	for rep := 0; rep < 3; rep++ {
		specs := mkSpecs(r, 2, []int{100})
		specs[0].JSON, specs[1].JSON = true, true
		specs[0].Model, specs[0].body = mkBody(r, 0, 100, true)
		specs[1].Model, specs[1].body = mkBody(r, 1, 100, true)
		for i := range specs {
			specs[i].SHA, specs[i].Head, specs[i].Len = sha(specs[i].body), head(specs[i].body), len(specs[i].body)
		}
		opsCase(c, bi, specs, []op{{"inspect", 0}, {"inspect", 1}, {"read", 0}, {"read", 1}})
		c.Count("ops.witness")
	}
	// all interleavings for k=2 (chains inspect;read and inspect;exec) and k=3
	nk := 40
	if tier == "thorough" {
		nk = 600
	}
	for rep := 0; rep < nk; rep++ {
		k := 2 + r.Intn(2)
		specs := mkSpecs(r, k, small)
		chains := make([][]op, k)
		for i := range chains {
			last := "read"
			if r.Chance(1, 3) {
				last = "exec"
			}
			chains[i] = []op{{"inspect", i}, {last, i}}
		}
		ils := interleavings(chains)
		for _, il := range ils {
			// fresh request objects per interleaving (opsCase builds them)
			opsCase(c, bi, specs, il)
			c.Count(fmt.Sprintf("ops.k%d", k))
		}
	}
	// bodies around the 1 MiB peek limit
	nb := 6
	if tier == "thorough" {
		nb = 40
	}
	for rep := 0; rep < nb; rep++ {
		specs := mkSpecs(r, 2, big)
		opsCase(c, bi, specs, []op{{"inspect", 0}, {"inspect", 1}, {"read", 0}, {"exec", 1}})
		c.Count("ops.big")
	}

	// strip prefix
	prefixes := []string{"/olla/proxy/", "/olla/openai/", "/olla/ollama/", "/olla/anthropic/", "/olla/lm-studio/", "/olla/proxy", "/a/", "/"}
	for i := 0; i < 400; i++ {
		p := vlib.Pick(r, prefixes)
		rest := vlib.Pick(r, []string{"", "v1/chat/completions", "/v1/x", "a", "//x", "v1/%2e%2e/x", "é/ü"})
		path := p + rest
		if r.Chance(1, 6) {
			path = vlib.Pick(r, []string{"/other/x", "/olla", "", "/olla/prox"})
		}
		c.Emit(map[string]any{"kind": "strip", "path_hex": hex.EncodeToString([]byte(path)), "prefix_hex": hex.EncodeToString([]byte(p)),
			"impl": map[string]any{"out_hex": hex.EncodeToString([]byte(util.StripPrefix(path, p)))}})
		c.Count("strip")
	}

	// stack bursts
	stackModels = true
	type cfg struct {
		prefix, ty, base string
		preserve         bool
	}
	cfgs := []cfg{{"/olla/proxy/", "openai", "", false}, {"/olla/openai/", "openai", "", false}, {"/olla/ollama/", "ollama", "", false},
		{"/olla/proxy/", "openai", "/base/v9", true}, {"/olla/vllm/", "vllm", "", false}, {"/olla/lm-studio/", "lm-studio", "", false},
		{"/olla/anthropic/", "vllm", "", false}}
	bursts := []int{2, 16, 64}
	for _, engine := range []string{"sherpa", "olla"} {
		for bi2, n := range bursts {
			reps := 1
			if tier == "thorough" {
				reps = 5
			}
			for rep := 0; rep < reps; rep++ {
				cf := cfgs[(bi2+rep)%len(cfgs)]
				stackBurst(c, r, engine, n, cf.prefix, cf.ty, cf.base, cf.preserve)
				c.Count(fmt.Sprintf("stack.%s.n%d", engine, n))
			}
		}
		for _, cf := range cfgs {
			stackBurst(c, r, engine, 4, cf.prefix, cf.ty, cf.base, cf.preserve)
			c.Count("stack.prefixes")
		}
		// the Anthropic passthrough route under load (the handler buffers the whole body before it forwards it)
		for rep := 0; rep < 3; rep++ {
			stackBurst(c, r, engine, 48, "/olla/anthropic/", "vllm", "", false)
			c.Count("stack.anthropic-passthrough")
		}
	}
	// large uploads that fail over after the first endpoint consumed part of them (sizes around typical buffer / limit
	// boundaries; the default max_body_size is 100 MiB)
	bigs := []int{5 << 20, 33<<20 + 1}
	if tier == "thorough" {
		bigs = []int{1 << 20, 5 << 20, 16<<20 + 1, 32 << 20, 33<<20 + 1, 64<<20 + 1, 99 << 20}
	}
	for _, engine := range []string{"sherpa", "olla"} {
		for _, sz := range bigs {
			stackBigFailover(c, r, engine, sz, false)
			c.Count("stack.bigfailover")
		}
		stackBigFailover(c, r, engine, 3<<20, true)
		stackBigFailover(c, r, engine, 32<<20+1, true) // undeclared length, one byte past a power of two
		stackBigFailover(c, r, engine, 8<<20+1, true)
		// the same sizes with nothing going wrong on the way
		bigNoFailover = true
		stackBigFailover(c, r, engine, 32<<20+1, true)
		stackBigFailover(c, r, engine, 8<<20+1, true)
		stackBigFailover(c, r, engine, 16<<20+1, false)
		bigNoFailover = false
		// JSON documents above the inspector's 1 MiB window, declared and chunked: the replay after the failed upload is the
		// whole document again
		bigJSON = true
		stackBigFailover(c, r, engine, 1<<20+4096, true)
		stackBigFailover(c, r, engine, 3<<20, true)
		stackBigFailover(c, r, engine, 2<<20, false)
		bigJSON = false
	}
	// translated (Anthropic -> OpenAI) requests under concurrency
	xb := 6
	if tier == "thorough" {
		xb = 40
	}
	for _, engine := range []string{"sherpa", "olla"} {
		stackTranslated(c, r, engine, 2)
		for i := 0; i < xb; i++ {
			stackTranslated(c, r, engine, 64)
			c.Count("xlate." + engine)
		}
	}
	c.Close(map[string]any{"exhaustive": true, "exhaustive_note": "all interleavings of the op chains (inspect;read|exec) of 2–3 requests for each sampled body set; everything else sampled"})
	_ = scen.Body
}
