//go:build verif

// Package vlib holds the pieces every verification harness shares: the one
// PRNG all random choices derive from, the JSON-lines case writer, and the
// printers used by the gen_* programs to render Lean source.
package vlib

import (
	"github.com/thushan/olla/pkg/pool"
	"bufio"
	"encoding/json"
	"fmt"
	"os"
	"sort"
	"strconv"
	"strings"
	"sync"
)

// ---------------------------------------------------------------- PRNG

// Rng is splitmix64; every generator derives from one seed (VERIF_SEED).
type Rng struct{ s uint64 }

// NewRng runs the seed through the splitmix finaliser first: without it seed+1 would be seed's stream
// shifted by one draw.
func NewRng(seed uint64) *Rng { return (&Rng{s: seed*0x9E3779B97F4A7C15 + 0x1234567}).Fork() }

func (r *Rng) U64() uint64 {
	r.s += 0x9E3779B97F4A7C15
	z := r.s
	z = (z ^ (z >> 30)) * 0xBF58476D1CE4E5B9
	z = (z ^ (z >> 27)) * 0x94D049BB133111EB
	return z ^ (z >> 31)
}

// Intn returns a value in [0,n).
func (r *Rng) Intn(n int) int {
	if n <= 0 {
		return 0
	}
	return int(r.U64() % uint64(n))
}

func (r *Rng) Bool() bool { return r.U64()&1 == 1 }

// Chance returns true with probability num/den.
func (r *Rng) Chance(num, den int) bool { return r.Intn(den) < num }

// Fork derives an independent stream (for per-goroutine generators).
func (r *Rng) Fork() *Rng { return &Rng{s: r.U64()} }

func Pick[T any](r *Rng, xs []T) T { return xs[r.Intn(len(xs))] }

// ---------------------------------------------------------------- env

func Seed() uint64 {
	if v := os.Getenv("VERIF_SEED"); v != "" {
		if n, err := strconv.ParseUint(v, 10, 64); err == nil {
			return n
		}
		if n, err := strconv.ParseInt(v, 10, 64); err == nil {
			return uint64(n)
		}
	}
	return 1
}

// Tier is "quick" or "thorough" (first CLI argument, overridden by VERIF_TIER).
func Tier() string {
	t := "quick"
	if len(os.Args) > 1 && (os.Args[1] == "quick" || os.Args[1] == "thorough") {
		t = os.Args[1]
	}
	if v := os.Getenv("VERIF_TIER"); v == "quick" || v == "thorough" {
		t = v
	}
	return t
}

// ReplayPath returns the file given after --replay, or "".
func ReplayPath() string {
	for i, a := range os.Args {
		if a == "--replay" && i+1 < len(os.Args) {
			return os.Args[i+1]
		}
	}
	return ""
}

// OutDir is where a harness writes cases.jsonl / meta.json (VERIF_OUT).
func OutDir() string {
	if v := os.Getenv("VERIF_OUT"); v != "" {
		return v
	}
	return "."
}

// ---------------------------------------------------------------- case writer

// Cases writes one JSON object per line; safe for concurrent use.
type Cases struct {
	mu   sync.Mutex
	f    *os.File
	w    *bufio.Writer
	n    int
	hist map[string]int
}

func OpenCases(name string) *Cases {
	f, err := os.Create(OutDir() + "/" + name)
	if err != nil {
		fmt.Fprintln(os.Stderr, "vlib: cannot create cases file:", err)
		os.Exit(3)
	}
	return &Cases{f: f, w: bufio.NewWriterSize(f, 1<<20), hist: map[string]int{}}
}

// Emit writes one case. The "case" field is filled in with a running number.
func (c *Cases) Emit(m map[string]any) int {
	c.mu.Lock()
	defer c.mu.Unlock()
	m["case"] = c.n
	b, err := json.Marshal(m)
	if err != nil {
		fmt.Fprintln(os.Stderr, "vlib: marshal:", err)
		os.Exit(3)
	}
	c.w.Write(b)
	c.w.WriteByte('\n')
	c.n++
	return c.n - 1
}

// Count tallies a generator-distribution bucket (printed into the evidence).
func (c *Cases) Count(bucket string) {
	c.mu.Lock()
	c.hist[bucket]++
	c.mu.Unlock()
}

func (c *Cases) N() int { return c.n }

// Close flushes and writes meta.json next to the cases (distribution histogram).
func (c *Cases) Close(extra map[string]any) {
	c.mu.Lock()
	defer c.mu.Unlock()
	c.w.Flush()
	c.f.Close()
	meta := map[string]any{"cases": c.n, "histogram": c.hist}
	if n, first := pool.VerifReleasesOfObjectsNotCheckedOut(); n > 0 {
		meta["pool_releases_of_objects_not_checked_out"] = n
		meta["pool_first_bad_release"] = first
	}
	for k, v := range extra {
		meta[k] = v
	}
	b, _ := json.MarshalIndent(meta, "", " ")
	os.WriteFile(OutDir()+"/meta.json", b, 0o644)
}

// Breadcrumb records (overwriting) what the harness is about to do. If the process dies — e.g. a panic on a
// goroutine of the code under test, which no recover in the harness can catch — the orchestrator puts the last
// breadcrumb into the replay file as the input that was being processed.
func Breadcrumb(v any) {
	b, err := json.Marshal(v)
	if err != nil {
		return
	}
	os.WriteFile(OutDir()+"/breadcrumb.json", b, 0o644)
}

// ---------------------------------------------------------------- Lean printers

func LeanStr(s string) string {
	var b strings.Builder
	b.WriteByte('"')
	for _, r := range s {
		switch {
		case r == '"':
			b.WriteString("\\\"")
		case r == '\\':
			b.WriteString("\\\\")
		case r == '\n':
			b.WriteString("\\n")
		case r == '\t':
			b.WriteString("\\t")
		case r == '\r':
			b.WriteString("\\r")
		case r < 0x20 || r == 0x7f:
			fmt.Fprintf(&b, "\\x%02x", r)
		default:
			b.WriteRune(r)
		}
	}
	b.WriteByte('"')
	return b.String()
}

func LeanBool(v bool) string {
	if v {
		return "true"
	}
	return "false"
}

func LeanNat(n uint64) string { return strconv.FormatUint(n, 10) }

// LeanInt renders an Int literal (parenthesised when negative).
func LeanInt(n int64) string {
	if n < 0 {
		return "(" + strconv.FormatInt(n, 10) + ")"
	}
	return strconv.FormatInt(n, 10)
}

func LeanList(items []string) string { return "[" + strings.Join(items, ", ") + "]" }

func LeanStrList(xs []string) string {
	out := make([]string, len(xs))
	for i, x := range xs {
		out[i] = LeanStr(x)
	}
	return LeanList(out)
}

func LeanTuple(items ...string) string { return "(" + strings.Join(items, ", ") + ")" }

func SortedKeys[V any](m map[string]V) []string {
	ks := make([]string, 0, len(m))
	for k := range m {
		ks = append(ks, k)
	}
	sort.Strings(ks)
	return ks
}

// LeanFile assembles a generated module.
type LeanFile struct {
	b strings.Builder
}

func NewLeanFile(namespace, origin string) *LeanFile {
	f := &LeanFile{}
	fmt.Fprintf(&f.b, "/- GENERATED on every check run by /verif/harness (%s) from the code compiled\n   out of /repo's working tree. Do not edit: it is deleted and rewritten. -/\nnamespace %s\n\n", origin, namespace)
	return f
}

func (f *LeanFile) Def(name, typ, value, comment string) {
	if comment != "" {
		fmt.Fprintf(&f.b, "/-- %s -/\n", comment)
	}
	fmt.Fprintf(&f.b, "def %s : %s :=\n  %s\n\n", name, typ, value)
}

func (f *LeanFile) Raw(s string) { f.b.WriteString(s) }

func (f *LeanFile) Write(namespace string) {
	fmt.Fprintf(&f.b, "end %s\n", namespace)
	out := os.Getenv("VERIF_GEN_OUT")
	if out == "" {
		os.Stdout.WriteString(f.b.String())
		return
	}
	if err := os.WriteFile(out, []byte(f.b.String()), 0o644); err != nil {
		fmt.Fprintln(os.Stderr, "vlib: write gen:", err)
		os.Exit(3)
	}
}
