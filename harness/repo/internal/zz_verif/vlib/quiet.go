//go:build verif

package vlib

import (
	"io"
	"log/slog"

	"github.com/thushan/olla/internal/logger"
)

// QuietLogger is a StyledLogger that discards everything.
func QuietLogger() logger.StyledLogger {
	return logger.NewPlainStyledLogger(slog.New(slog.NewTextHandler(io.Discard, &slog.HandlerOptions{Level: slog.LevelError})))
}
