//go:build verif

package vlib

import (
	"runtime"
	"time"
)

// SettledGoroutines: the number of goroutines once the stragglers of whatever ran before (readers winding down, timers of
// finished discovery rounds) have gone: the count has not changed for a millisecond.  A straggler counted into a base
// line would hide one pending background task from a wait on that base line.
func SettledGoroutines() int {
	n, same := runtime.NumGoroutine(), 0
	for deadline := time.Now().Add(200 * time.Millisecond); same < 5 && time.Now().Before(deadline); {
		time.Sleep(200 * time.Microsecond)
		if m := runtime.NumGoroutine(); m == n {
			same++
		} else {
			n, same = m, 0
		}
	}
	return n
}

// UnifyIdle: a registry that can say whether a background unification is running or pending says so; any other is idle.
func UnifyIdle(reg any) bool {
	if r, ok := reg.(interface{ VerifUnifyIdle() bool }); ok {
		return r.VerifUnifyIdle()
	}
	return true
}

// WaitUnifyIdle waits (at least min, at most max) for the registry's background unification to have nothing left to do.
func WaitUnifyIdle(reg any, min, max time.Duration) {
	start := time.Now()
	time.Sleep(min)
	for !UnifyIdle(reg) && time.Since(start) < max {
		time.Sleep(200 * time.Microsecond)
	}
}
