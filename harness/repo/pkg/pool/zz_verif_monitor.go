//go:build verif

package pool

import (
	"fmt"
	"reflect"
	"runtime"
	"sync"
)

// Pool discipline monitor (verif builds only; Get/Put of lite_pool.go call it through the regenerated, instrumented
// copy of that file, see tools/vcheck.py instrument_pool).  An object handed out by Get is "checked out" until it is
// Put back; a Put of an object that is not checked out is a second release (or the release of an object the pool never
// handed out): from then on two holders can be given the same object.

var (
	verifMu    sync.Mutex
	verifOut   = map[uintptr]int{}
	verifBad   int
	verifFirst string
)

func verifKey(v any) (uintptr, bool) {
	rv := reflect.ValueOf(v)
	switch rv.Kind() {
	case reflect.Ptr, reflect.UnsafePointer, reflect.Map, reflect.Chan, reflect.Func:
		if rv.IsNil() {
			return 0, false
		}
		return rv.Pointer(), true
	case reflect.Slice:
		if rv.IsNil() || rv.Cap() == 0 {
			return 0, false
		}
		return rv.Pointer(), true
	}
	return 0, false
}

func verifNoteGet(v any) {
	k, ok := verifKey(v)
	if !ok {
		return
	}
	verifMu.Lock()
	verifOut[k]++
	verifMu.Unlock()
}

func verifNotePut(v any) {
	k, ok := verifKey(v)
	if !ok {
		return
	}
	verifMu.Lock()
	if verifOut[k] <= 0 {
		verifBad++
		if verifFirst == "" {
			buf := make([]byte, 4096)
			n := runtime.Stack(buf, false)
			verifFirst = fmt.Sprintf("Put of a %T that is not checked out (released twice, or never handed out by Get):\n%s", v, buf[:n])
		}
	} else {
		verifOut[k]--
		if verifOut[k] == 0 {
			delete(verifOut, k)
		}
	}
	verifMu.Unlock()
}

// VerifReleasesOfObjectsNotCheckedOut reports how many Puts broke the discipline, and where the first one came from.
func VerifReleasesOfObjectsNotCheckedOut() (int, string) {
	verifMu.Lock()
	defer verifMu.Unlock()
	return verifBad, verifFirst
}
