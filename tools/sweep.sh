#!/bin/bash
# tools/sweep.sh <tier> <seed>...  — every check on the unchanged tree under the given seeds; prints one line per run
tier=$1; shift
cd ${X_VERIF:-/verif}
for seed in "$@"; do
  for i in $(seq -w 1 20); do
    out=$(VERIF_SEED=$seed bin/check C$i $tier 2>&1); rc=$?
    echo "seed=$seed C$i rc=$rc $(echo "$out" | grep '^\[check\]' | tail -1)"
    [ $rc -ne 0 ] && echo "$out" | grep VIOLATION | head -3 && cp -r replays "/tmp/sweep-replays-$seed-C$i" 2>/dev/null
  done
done
