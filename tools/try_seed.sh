#!/bin/bash
# tools/try_seed.sh <patch.diff> <ID> [tier]  — apply a seeded change to a scratch worktree of /repo, run the check against it, remove the worktree.
set -u
patch=$(readlink -f "$1"); id=$2; tier=${3:-quick}
wt=/tmp/wt-seed-$$
git -C /repo worktree add --detach "$wt" HEAD >/dev/null 2>&1 || exit 3
if ! git -C "$wt" apply "$patch" 2>/dev/null && ! git -C "$wt" apply --3way "$patch"; then echo "PATCH DOES NOT APPLY"; git -C /repo worktree remove --force "$wt"; exit 3; fi
V=${X_VERIF:-/verif}; cd $V && VERIF_REPO="$wt" bin/check "$id" "$tier"; rc=$?
for f in $V/replays/$id-$tier-*.json; do [ -f "$f" ] && python3 - "$f" <<'P'
import json,sys
d=json.load(open(sys.argv[1]))
print("  replay", sys.argv[1].split('/')[-1], "|", d.get('signature', 'no-failing-input'), "|", (d.get('what') or str(d.get('theorems_that_no_longer_check'))+str([x.get('what') for x in d.get('correspondence_that_no_longer_checks',[])][:3]))[:260])
P
done
git -C /repo worktree remove --force "$wt"
echo "rc=$rc"
