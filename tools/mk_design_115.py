#!/usr/bin/env python3
"""tools/mk_design_115.py — regenerate DESIGN.md §11.5 (per-property state) from checks/*.json and evidence/*.json"""
import json, re, glob, os
root = '/verif'
out = ["### 11.5 Per-property state as built (generated from `checks/*.json` and the last evidence files)", ""]
props = {json.loads(l)['id']: json.loads(l) for l in open(root + '/properties.jsonl')}
for path in sorted(glob.glob(root + '/checks/C*.json')):
    c = json.load(open(path))
    pid = c['id']
    ev = {}
    try:
        ev = json.load(open('%s/evidence/%s.json' % (root, pid)))
    except Exception:
        pass
    cov = ev.get('coverage', {})
    nob = cov.get('obligations', '?')
    ax = ''
    for t in cov.get('trusted_base', []):
        m = re.match(r'axioms actually printed by #print axioms this run: (.*)', t)
        if m:
            ax = m.group(1)
    title = props[pid].get('title') or props[pid].get('name') or ''
    head = "#### %s — %s obligations, axioms: %s" % (pid, nob, ax) if not title else "#### %s — %s obligations, axioms: %s" % (pid, nob, ax)
    out += [head, "", "*Claimed:* " + c['level_text'].strip(), "", "*Assumed / not covered:* " + c['level_note'].strip(), ""]
    gens = ', '.join('`%s`' % g['prog'] for g in c.get('gen', []))
    out += ["*Gen programs:* %s.  *Harness:* `zz_verif/%s`.  *Model-vs-code:* %s" % (gens or '—', c['harness'], c['modelled'].strip()), ""]
s = open(root + '/DESIGN.md').read()
i = s.index('### 11.5 Per-property state as built')
s = s[:i] + '\n'.join(out).rstrip('\n') + '\n'
open(root + '/DESIGN.md', 'w').write(s)
print("regenerated 11.5:", len(out), "lines")
