#!/usr/bin/env python3
"""bin/check <ID> <quick|thorough> [--replay FILE]

One check run for one property (DESIGN.md §1):
  1. build harness + gen programs from /repo's working tree (go build -tags verif -overlay)
  2. regenerate lean/Olla/Gen/*.lean by running the gen programs
  3. proof obligations: lake build Olla.Props.<ID>, #print axioms audit, source grep
  4. correspondence: harness -> cases.jsonl, olla_model <ID> -> verdicts.jsonl
  5. decide, print VIOLATION / KNOWN-FINDING lines, write evidence/<ID>.json
"""
import fcntl, hashlib, json, os, re, shutil, subprocess, sys, time

VERIF = os.path.dirname(os.path.dirname(os.path.abspath(__file__)))  # /verif
REPO = os.environ.get("VERIF_REPO", "/repo")
LEAN = os.path.join(VERIF, "lean")
BUILD = os.path.join(VERIF, "build")
ALLOWED_AXIOMS = {"propext", "Classical.choice", "Quot.sound"}
FORBIDDEN = re.compile(r"\bsorry\b|\badmit\b|^axiom\s|native_decide|bv_decide|implemented_by|\bunsafe\s|maxHeartbeats\s+0\b", re.M)

GOENV = dict(os.environ, GOFLAGS="-mod=mod", GOPROXY="off")
GOENV.pop("GOTOOLCHAIN", None) if os.environ.get("GOTOOLCHAIN") == "local" else None
GOENV.pop("GOSUMDB", None) if os.environ.get("GOSUMDB") == "off" else None


def log(*a):
    print("[check]", *a, file=sys.stderr, flush=True)


def sh(cmd, cwd=None, env=None, timeout=None, stdin=None, stdout=subprocess.PIPE):
    t0 = time.time()
    try:
        p = subprocess.run(cmd, cwd=cwd, env=env, timeout=timeout, stdin=stdin, stdout=stdout,
                           stderr=subprocess.STDOUT if stdout == subprocess.PIPE else subprocess.PIPE, text=True, errors="replace")
        out = p.stdout if stdout == subprocess.PIPE else (p.stderr or "")
        return p.returncode, out or "", time.time() - t0
    except subprocess.TimeoutExpired as e:
        o = e.stdout if isinstance(e.stdout, str) else (e.stdout or b"").decode("utf8", "replace") if e.stdout else ""
        return 124, o + "\n[timeout after %ss]" % timeout, time.time() - t0


# ----------------------------------------------------------------------------- overlay / go build

def write_overlay():
    """Every file under harness/repo/<path> is overlaid at /repo/<path>."""
    root = os.path.join(VERIF, "harness", "repo")
    repl = {}
    for d, _, fs in os.walk(root):
        for f in fs:
            src = os.path.join(d, f)
            rel = os.path.relpath(src, root)
            repl[os.path.join(REPO, rel)] = src
    os.makedirs(BUILD, exist_ok=True)
    # overlay files and instrumented pool copies of scratch trees that are long gone (several checks may run against one
    # scratch tree at the same time, so nothing is removed when a run ends)
    for f in os.listdir(BUILD):
        if (f.startswith("overlay-") or f.startswith("gen-")) and time.time() - os.path.getmtime(os.path.join(BUILD, f)) > 6 * 3600:
            fp = os.path.join(BUILD, f)
            shutil.rmtree(fp, ignore_errors=True) if os.path.isdir(fp) else os.remove(fp)
    inst = instrument_pool()
    if inst:
        repl[os.path.join(REPO, "pkg", "pool", "lite_pool.go")] = inst
    path = os.path.join(BUILD, "overlay.json" if REPO == "/repo" else "overlay-%s.json" % hashlib.sha1(REPO.encode()).hexdigest()[:8])
    data = json.dumps({"Replace": repl}, indent=1, sort_keys=True)
    tmp = path + ".%d" % os.getpid()
    with open(tmp, "w") as fh:
        fh.write(data)
    os.replace(tmp, path)
    return path


def instrument_pool():
    """The working tree's pkg/pool/lite_pool.go with two calls added: Get notes what it hands out, Put notes what it is
    given (zz_verif_monitor.go keeps the set of checked-out objects).  Regenerated on every run from the file as it is
    now; when the two method bodies are not found as expected the monitor is left out (nothing is claimed then)."""
    src = os.path.join(REPO, "pkg", "pool", "lite_pool.go")
    try:
        txt = open(src).read()
    except OSError:
        return None
    g = re.search(r"func \(p \*Pool\[T\]\) Get\(\) T \{\n(.*?)\n\}\n", txt, re.S)
    u = re.search(r"func \(p \*Pool\[T\]\) Put\(v T\) \{\n", txt)
    if not g or not u or "return p.pool.Get().(T)" not in g.group(1):
        return None
    body = g.group(1).replace("return p.pool.Get().(T)", "verifV := p.pool.Get().(T)\n\tverifNoteGet(any(verifV))\n\treturn verifV")
    out = txt[:g.start(1)] + body + txt[g.end(1):]
    u = re.search(r"func \(p \*Pool\[T\]\) Put\(v T\) \{\n", out)
    out = out[:u.end()] + "\tverifNotePut(any(v))\n" + out[u.end():]
    dst_dir = os.path.join(BUILD, "gen-" + hashlib.sha1(REPO.encode()).hexdigest()[:8])
    os.makedirs(dst_dir, exist_ok=True)
    dst = os.path.join(dst_dir, "lite_pool.go")
    tmp = dst + ".%d" % os.getpid()
    with open(tmp, "w") as fh:
        fh.write(out)
    os.replace(tmp, dst)
    return dst


def gen_snapshot(cfg, failed):
    """For a tie obligation that no longer checks: what the regenerated tables say now."""
    out = {}
    if not any("_tie_" in n for n in failed):
        return out
    for g in cfg.get("gen", []):
        p = os.path.join(LEAN, "Olla", "Gen", g["module"] + ".lean")
        if g["module"] == "State" and os.path.exists(p):
            txt = open(p).read()
            out["Olla.Gen.State.mutableStateReached (function, found, reachable package-level variables the package changes after init)"] = \
                re.findall(r'\("[^"]+", (?:true|false), \[[^\]]*\]\)', txt)
    return out


def go_build(pkg, overlay):
    os.makedirs(os.path.join(BUILD, "bin"), exist_ok=True)
    out = os.path.join(BUILD, "bin", pkg)
    if os.path.exists(out):
        os.remove(out)  # never run a stale binary
    rc, o, dt = sh(["go", "build", "-tags", "verif", "-overlay", overlay, "-o", out, "./internal/zz_verif/" + pkg],
                   cwd=REPO, env=GOENV, timeout=900)
    return rc == 0, o, out


# ----------------------------------------------------------------------------- lean

def strip_comments(src):
    src = re.sub(r"/-.*?-/", "", src, flags=re.S)
    src = re.sub(r"--.*", "", src)
    return src


def lean_sources_for(cfg):
    mods = set()
    todo = [cfg["props"]] + ["Olla.Driver." + cfg["id"]]
    while todo:
        m = todo.pop()
        if m in mods or not m.startswith("Olla"):
            continue
        p = os.path.join(LEAN, m.replace(".", "/") + ".lean")
        if not os.path.exists(p):
            continue
        mods.add(m)
        for imp in re.findall(r"^import\s+(\S+)", open(p).read(), flags=re.M):
            todo.append(imp)
    return sorted(mods)


def theorem_names(cfg):
    p = os.path.join(LEAN, cfg["props"].replace(".", "/") + ".lean")
    src = strip_comments(open(p).read())
    ns = ""
    names = []
    for m in re.finditer(r"^(namespace\s+(\S+)|end\s+(\S+)|(?:protected\s+)?theorem\s+(\S+))", src, flags=re.M):
        if m.group(2):
            ns = (ns + "." if ns else "") + m.group(2)
        elif m.group(3):
            k = m.group(3)
            if ns.endswith(k):
                ns = ns[: -len(k)].rstrip(".")
        elif m.group(4):
            names.append((ns + "." if ns else "") + m.group(4))
    return names


def lake(args, timeout=3000):
    return sh(["lake"] + args, cwd=LEAN, timeout=timeout)


def proof_obligations(cfg, tier):
    """Returns dict(obligations, discharged, failed=[(name, why)], axioms={name:[..]}, log)."""
    res = {"obligations": 0, "discharged": 0, "failed": [], "axioms": {}, "log": ""}
    names = theorem_names(cfg)
    res["obligations"] = len(names)
    rc, out, dt = lake(["build", cfg["props"]])
    res["log"] += out[-6000:]
    if rc != 0:
        # attribute errors to theorems by line number
        p = os.path.join(LEAN, cfg["props"].replace(".", "/") + ".lean")
        src = open(p).read().split("\n")
        starts = []
        for i, line in enumerate(src):
            m = re.match(r"\s*(?:private\s+|protected\s+)?theorem\s+(\S+)", line)
            if m:
                starts.append((i + 1, m.group(1)))
        bad = set()
        own = False
        for m in re.finditer(r"error: (\S+?\.lean):(\d+):\d+:?\s*(.*)", out):
            if os.path.basename(p) == os.path.basename(m.group(1)) and "Props" in m.group(1):
                own = True
                ln = int(m.group(2))
                cur = None
                for s, n in starts:
                    if s <= ln:
                        cur = n
                bad.add((cur or "<file>", m.group(3)[:200]))
        if not own:
            first = re.search(r"error: .*", out)
            bad.add(("<dependency of %s>" % cfg["props"], first.group(0)[:300] if first else "lake build failed"))
            res["discharged"] = 0
        else:
            res["discharged"] = max(0, len(names) - len({b[0] for b in bad}))
        res["failed"] = sorted(bad)
        return res
    # audit axioms
    os.makedirs(os.path.join(LEAN, "Audit"), exist_ok=True)
    ap = os.path.join(LEAN, "Audit", cfg["id"] + ".lean")
    with open(ap, "w") as fh:
        fh.write("import %s\n" % cfg["props"])
        for n in names:
            fh.write("#print axioms %s\n" % n)
    rc, out, dt = lake(["env", "lean", ap])
    res["log"] += out[-4000:]
    cur = None
    axioms = {}
    for m in re.finditer(r"'([^']+)' (does not depend on any axioms|depends on axioms: \[([^\]]*)\])", out, flags=re.S):
        ax = [a.strip() for a in (m.group(3) or "").replace("\n", " ").split(",") if a.strip()]
        axioms[m.group(1)] = ax
    res["axioms"] = axioms
    ok = 0
    for n in names:
        if n not in axioms:
            res["failed"].append((n, "no #print axioms output"))
        elif set(axioms[n]) - ALLOWED_AXIOMS:
            res["failed"].append((n, "forbidden axioms: %s" % sorted(set(axioms[n]) - ALLOWED_AXIOMS)))
        else:
            ok += 1
    # source grep over every module this property's theorems and driver import
    for m in lean_sources_for(cfg):
        p = os.path.join(LEAN, m.replace(".", "/") + ".lean")
        hit = FORBIDDEN.search(strip_comments(open(p).read()))
        if hit:
            res["failed"].append((m, "forbidden construct in source: %r" % hit.group(0)))
            ok = 0
    res["discharged"] = ok
    if tier == "thorough" and not res["failed"]:
        rc, out, dt = lake(["env", "leanchecker", cfg["props"]], timeout=3000)
        res["log"] += "\n[leanchecker rc=%d %.0fs] %s" % (rc, dt, out[-500:])
        res["leanchecker"] = rc == 0
        if rc != 0:
            res["failed"].append((cfg["props"], "leanchecker rejected the module"))
            res["discharged"] = 0
    return res


# ----------------------------------------------------------------------------- known findings

def load_known(pid):
    known, fixed = [], []
    p = os.path.join(VERIF, "known_findings.txt")
    if os.path.exists(p):
        for line in open(p):
            line = line.strip()
            m = re.match(r"known:\s+property=(\S+)\s+key=(\S+)\s+(.*)", line)
            if m and m.group(1) == pid:
                known.append((m.group(2), m.group(3)))
            m = re.match(r"fixed:\s+property=(\S+)\s+(\S+)\s+(.*)", line)
            if m and m.group(1) == pid:
                fixed.append((m.group(2), m.group(3)))
    return known, fixed


# ----------------------------------------------------------------------------- main

AGGREGATE_KINDS = {"soak", "overlap", "crossfire", "shared", "owners", "mixup", "bursts", "uptime", "crowd", "race",
                   "race-reopen", "race-verdicts", "discover-round", "discover-overlap", "lcconc", "xroute", "loop",
                   "prodloop", "e2e", "leak", "lifecycle", "recover", "methods", "xlate", "prioseq", "http", "manager", "c14h", "c05hist", "history", "collector-history", "engine-slow", "slowreader", "breaker-scope", "http-breaker", "breaker-gauge"}


def main():
    if len(sys.argv) < 3:
        print(__doc__)
        sys.exit(2)
    pid, tier = sys.argv[1], os.environ.get("VERIF_TIER") or sys.argv[2]
    if tier not in ("quick", "thorough"):
        tier = "quick"
    replay_in = None
    if "--replay" in sys.argv:
        replay_in = os.path.abspath(sys.argv[sys.argv.index("--replay") + 1])
    seed = int(os.environ.get("VERIF_SEED", "1") or "1")
    if replay_in:
        # scenarios that are one long run of many clients / rounds (a soak, a burst series, a race repeated thousands of
        # times) are part of every run of the check: replaying one means running the check again under the recorded seed
        try:
            rdoc = json.load(open(replay_in))
            kind = (rdoc.get("failing_case") or {}).get("kind", "")
            if kind in AGGREGATE_KINDS or rdoc.get("no_failing_input_found") or rdoc.get("signature") == "process-died":
                seed = int(rdoc.get("seed", seed))
                tier = rdoc.get("tier", tier)
                replay_in = None
        except Exception:
            pass
    cfg = json.load(open(os.path.join(VERIF, "checks", pid + ".json")))
    t0 = time.time()
    os.makedirs(BUILD, exist_ok=True)
    work = os.path.join(BUILD, "run", "%s-%s-%d" % (pid, tier, os.getpid()))
    shutil.rmtree(work, ignore_errors=True)
    os.makedirs(work)
    replays = os.path.join(VERIF, "replays")
    os.makedirs(replays, exist_ok=True)
    for f in os.listdir(replays):  # replays of an earlier run of this check and tier are stale now
        if f.startswith("%s-%s-" % (pid, tier)) and f.endswith(".json"):
            os.remove(os.path.join(replays, f))
    # evidence describes /repo; a run against a scratch tree (VERIF_REPO, used for seeded changes) writes elsewhere
    evdir = os.path.join(VERIF, "evidence") if REPO == "/repo" else os.path.join(BUILD, "evidence-scratch")
    os.makedirs(evdir, exist_ok=True)

    tie_errors = []      # (what, message)  -> broken tie / correspondence, no concrete input by themselves
    lockf = open(os.path.join(BUILD, ".lock"), "w")
    fcntl.flock(lockf, fcntl.LOCK_EX)
    try:
        overlay = write_overlay()
        # 1+2: gen programs -> Lean
        os.makedirs(os.path.join(LEAN, "Olla", "Gen"), exist_ok=True)
        for g in cfg.get("gen", []):
            target = os.path.join(LEAN, "Olla", "Gen", g["module"] + ".lean")
            ok, out, binp = go_build(g["prog"], overlay)
            if not ok:
                tie_errors.append(("gen:" + g["prog"], "does not compile against the current tree:\n" + out[-3000:]))
                continue
            tmp = os.path.join(work, g["module"] + ".lean")
            rc, out, dt = sh([binp], cwd=REPO, env=dict(GOENV, VERIF_GEN_OUT=tmp), timeout=600)
            if rc != 0 or not os.path.exists(tmp):
                tie_errors.append(("gen:" + g["prog"], "failed to run (rc=%d):\n%s" % (rc, out[-3000:])))
                continue
            new = open(tmp).read()
            old = open(target).read() if os.path.exists(target) else None
            if new != old:
                if os.path.exists(target):
                    os.remove(target)
                shutil.copy(tmp, target)
        # harness
        hbin = None
        ok, out, hbin_path = go_build(cfg["harness"], overlay)
        if ok:
            # keep a private copy so a parallel check of another property cannot replace it mid-run
            hbin = os.path.join(work, "harness")
            shutil.copy(hbin_path, hbin)
        else:
            tie_errors.append(("harness:" + cfg["harness"], "does not compile against the current tree:\n" + out[-3000:]))
        # 3: proofs
        po = proof_obligations(cfg, tier)
        # driver
        rc, out, dt = lake(["build", "olla_model"])
        model_bin = os.path.join(LEAN, ".lake", "build", "bin", "olla_model")
        if rc != 0 or not os.path.exists(model_bin):
            tie_errors.append(("driver", "olla_model does not build:\n" + out[-3000:]))
            mbin = None
        else:
            mbin = os.path.join(work, "olla_model")
            shutil.copy(model_bin, mbin)
    finally:
        fcntl.flock(lockf, fcntl.LOCK_UN)

    # 4: correspondence
    verdicts = []
    crash = None
    cases_path = os.path.join(work, "cases.jsonl")
    meta = {}
    if hbin and mbin:
        env = dict(GOENV, VERIF_OUT=work, VERIF_SEED=str(seed), VERIF_TIER=tier, VERIF_CORPUS=os.path.join(VERIF, "corpus", pid))
        args = [hbin, tier]
        if replay_in:
            args += ["--replay", replay_in]
        tmo = cfg.get("timeout_" + tier, 600 if tier == "quick" else 7200)
        rc, out, dt = sh(args, cwd=REPO, env=env, timeout=tmo)
        open(os.path.join(work, "harness.log"), "w").write(out)
        crash = None
        if rc != 0:
            tie_errors.append(("harness-run", "harness exited rc=%d:\n%s" % (rc, out[-3000:])))
            bc = os.path.join(work, "breadcrumb.json")
            if os.path.exists(bc):
                try:
                    crash = {"last_input_before_the_process_died": json.load(open(bc)), "exit_code": rc,
                             "tail_of_output": out[-2500:]}
                except Exception:
                    crash = None
        if os.path.exists(os.path.join(work, "meta.json")):
            try:
                meta = json.load(open(os.path.join(work, "meta.json")))
                if meta.get("pool_releases_of_objects_not_checked_out", 0) > 0:
                    # the models take "a scratch object has one holder at a time" for granted (Olla.Props.C02.pool_exclusive_of_discipline
                    # derives it from "nobody releases what it does not hold"); the run saw a release that breaks it
                    tie_errors.append(("pool-discipline (assumption of Olla.Props.C02.pool_exclusive_of_discipline)",
                                       "%d release(s) of a pooled object that was not checked out; first: %s" %
                                       (meta["pool_releases_of_objects_not_checked_out"], meta.get("pool_first_bad_release", ""))))
            except Exception:
                meta = {}
        if os.path.exists(cases_path):
            with open(cases_path) as fin, open(os.path.join(work, "verdicts.jsonl"), "w") as fout:
                p = subprocess.run([mbin, pid], stdin=fin, stdout=fout, stderr=subprocess.PIPE, text=True, timeout=tmo)
            if p.returncode != 0:
                tie_errors.append(("driver-run", "olla_model %s exited rc=%d: %s" % (pid, p.returncode, p.stderr[-2000:])))
            for line in open(os.path.join(work, "verdicts.jsonl")):
                line = line.strip()
                if line.startswith("{"):
                    try:
                        verdicts.append(json.loads(line))
                    except Exception:
                        tie_errors.append(("driver-run", "unparseable verdict line: " + line[:200]))

    # index cases
    cases = {}
    ncases = 0
    if os.path.exists(cases_path):
        for line in open(cases_path):
            ncases += 1
            try:
                c = json.loads(line)
                cases[c.get("case")] = c
            except Exception:
                pass
    if hbin and mbin and len(verdicts) != ncases:
        tie_errors.append(("driver-run", "driver produced %d verdicts for %d cases" % (len(verdicts), ncases)))

    # 5: decide
    known, fixed = load_known(pid)
    out_lines = []
    violations = 0
    spec_fail = [v for v in verdicts if not v.get("spec", True)]
    disagree = [v for v in verdicts if not v.get("agree", True)]
    by_sig = {}
    for v in spec_fail:
        by_sig.setdefault(v.get("sig") or "unclassified", []).append(v)
    known_keys = {k: w for k, w in known}
    seen_known = set()
    ridx = 0
    for sig, vs in sorted(by_sig.items()):
        if sig in known_keys:
            # a listed finding is the behaviour the model's pinned variant reproduces (model and implementation agree on the
            # case, the property's predicate fails on both); a case with the same signature on which the implementation
            # does something ELSE than the pinned model is a different violation of the same property and is reported
            kn = [v for v in vs if v.get("agree", True)]
            vs = [v for v in vs if not v.get("agree", True)]
            if kn:
                seen_known.add(sig)
                out_lines.append("KNOWN-FINDING: property=%s %s (key=%s, %d case(s) this run)" % (pid, known_keys[sig], sig, len(kn)))
            if not vs:
                continue
        violations += 1
        v = min(vs, key=lambda x: len(json.dumps(cases.get(x.get("case"), {}))))
        rp = os.path.join(replays, "%s-%s-%d.json" % (pid, tier, ridx))
        ridx += 1
        json.dump({"property": pid, "signature": sig, "what": v.get("note", ""), "failing_case": cases.get(v.get("case")),
                   "verdict": v, "other_cases_with_same_signature": len(vs) - 1, "seed": seed, "tier": tier,
                   "how_to_replay": "bin/check %s %s --replay %s" % (pid, tier, rp),
                   "broken_obligations": po["failed"], "tie_errors": [t[0] for t in tie_errors]}, open(rp, "w"), indent=1)
        out_lines.append("VIOLATION property=%s replay=%s" % (pid, rp))
    if crash and cfg.get("crash_is_violation"):
        # the property itself says the process must survive: the input being processed when it died is the failing input
        violations += 1
        rp = os.path.join(replays, "%s-%s-crash.json" % (pid, tier))
        json.dump({"property": pid, "signature": "process-died", "what": "the harness process (which runs the code under test in-process) died", **crash,
                   "seed": seed, "tier": tier}, open(rp, "w"), indent=1)
        out_lines.append("VIOLATION property=%s replay=%s" % (pid, rp))
    if violations == 0 and (po["failed"] or tie_errors or [v for v in disagree if v.get("spec", True)]):
        # something no longer checks but no concrete failing input was found
        violations += 1
        rp = os.path.join(replays, "%s-%s-unproved.json" % (pid, tier))
        json.dump({"property": pid, "no_failing_input_found": True,
                   "theorems_that_no_longer_check": [{"theorem": n, "why": w} for n, w in po["failed"]],
                   "correspondence_that_no_longer_checks": [{"what": a, "detail": b} for a, b in tie_errors] +
                   [{"what": "model/implementation disagreement", "case": cases.get(v.get("case")), "verdict": v} for v in disagree[:20]],
                   "disagreements": len(disagree), "seed": seed, "tier": tier,
                   "harness_process_died": crash,
                   "regenerated_facts": gen_snapshot(cfg, [n for n, _ in po["failed"]]),
                   "searched": "spec predicate evaluated on the implementation's outputs for %d generated cases (corpus first): no case falsified it" % ncases},
                  open(rp, "w"), indent=1)
        out_lines.append("VIOLATION property=%s replay=%s no-failing-input-found" % (pid, rp))

    # evidence
    nontriv = set()
    branches = {}
    for v in verdicts:
        b = v.get("branch", "")
        branches[b] = branches.get(b, 0) + 1
        if v.get("nontrivial", b not in ("", "trivial")):
            c = dict(cases.get(v.get("case"), {}))
            c.pop("case", None)
            nontriv.add(hashlib.sha1(json.dumps(c, sort_keys=True).encode()).hexdigest())
    samples = []
    for v in verdicts[:: max(1, len(verdicts) // 3)][:3]:
        c = cases.get(v.get("case"), {})
        s = json.dumps({"case": c, "verdict": v})
        samples.append(json.loads(s) if len(s) < 4000 else {"case_truncated": s[:4000]})
    names = theorem_names(cfg)
    samples.append({"obligations": names[:40]})
    axioms_used = sorted({a for v in po["axioms"].values() for a in v})
    ev = {
        "property_id": pid, "tier": tier, "seed": seed, "level": "proof",
        "coverage": {
            "obligations": po["obligations"], "discharged": po["discharged"],
            "checker_cmd": "cd /verif/lean && lake build %s && lake env lean Audit/%s.lean%s" % (cfg["props"], pid, " && lake env leanchecker " + cfg["props"] if tier == "thorough" else ""),
            "trusted_base": ["Lean 4.33.0 kernel" + (" (re-checked by leanchecker this run)" if po.get("leanchecker") else ""),
                             "axioms actually printed by #print axioms this run: " + (", ".join(axioms_used) or "none"),
                             "Lean compiler/runtime + Lean.Data.Json for the olla_model driver",
                             "gen programs %s (harness/repo/internal/zz_verif) rendering Olla/Gen from the compiled code" % [g["prog"] for g in cfg.get("gen", [])],
                             "hand-written model tied by differential correspondence only: " + cfg.get("modelled", ""),
                             "modelled, not verified: " + cfg.get("trusted", "Go runtime, net/http, sync/atomic")],
            "theorems": names,
            "failed_obligations": [{"theorem": n, "why": w} for n, w in po["failed"]],
            "evaluations": ncases, "distinct_nontrivial": len(nontriv),
            "rule": cfg.get("rule", "cases generated by the harness from one splitmix64 stream (VERIF_SEED); non-trivial = the model took a branch other than 'trivial'; distinct = distinct canonical input JSON"),
            "branches": branches, "generator_histogram": meta.get("histogram", {}),
            "disagreements": len(disagree), "spec_failures_on_impl": len(spec_fail),
            "known_findings_seen": sorted(seen_known),
            # `exhaustive` is only claimed when the harness says the WHOLE case space of this run was a finite space
            # enumerated completely; sub-spaces that were enumerated completely are named separately
            "exhaustive": bool(meta.get("exhaustive_all", False)),
            "exhaustively_enumerated_subspaces": meta.get("exhaustive_note", "") if meta.get("exhaustive") else "",
            "samples": samples,
        },
        "assumptions": cfg.get("assumptions", []),
        "wall_s": round(time.time() - t0, 2), "violations": violations,
    }
    for k, v in meta.items():
        if k not in ("histogram", "cases", "exhaustive", "exhaustive_note", "exhaustive_all"):
            ev["coverage"]["harness_" + k] = v
    json.dump(ev, open(os.path.join(evdir, pid + ".json"), "w"), indent=1)
    for l in out_lines:
        print(l)
    log("%s %s: obligations %d/%d, cases %d, disagreements %d, spec failures %d, tie errors %d, %.1fs" % (
        pid, tier, po["discharged"], po["obligations"], ncases, len(disagree), len(spec_fail), len(tie_errors), time.time() - t0))
    for a, b in tie_errors:
        log("tie error:", a, b[:1500])
    for n, w in po["failed"]:
        log("failed obligation:", n, w)
    if not os.environ.get("VERIF_KEEP"):
        shutil.rmtree(work, ignore_errors=True)
    sys.exit(1 if violations else 0)


if __name__ == "__main__":
    main()
