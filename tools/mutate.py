#!/usr/bin/env python3
"""tools/mutate.py <ID> <n> [seed]  — operator mutants of the files a property is anchored in, as a cheap complement to the
seeded changes written by hand (DESIGN 11.4).  For each sampled mutant: build; run the property's quick check against the
mutated tree (X_VERIF copy of /verif, scratch worktree under /tmp); if the check stays quiet, run the package's tests and
then the whole suite to see whether the mutant is one the existing tests already kill.  Prints one line per mutant:
  <ID> <file>:<line> <operator> | caught <signature>  /  killed-by-suite  /  SURVIVOR (to be triaged by hand: equivalent,
  outside the property, or a gap of the check).
Never touches /repo's working tree; nothing it writes is used by a registered command."""
import json, os, random, re, subprocess, sys

ID, N = sys.argv[1], int(sys.argv[2])
SEED = int(sys.argv[3]) if len(sys.argv) > 3 else 1
XV = os.environ.get('X_VERIF', '/verif')
ENV = dict(os.environ, GOFLAGS='-mod=mod', GOPROXY='off')
prop = [json.loads(l) for l in open('/verif/properties.jsonl') if json.loads(l)['id'] == ID][0]
files = [f for f in prop['anchors']['files'] if f.endswith('.go') and not f.endswith('_test.go')]

OPS = [
    (r' < ', ' <= '), (r' <= ', ' < '), (r' > ', ' >= '), (r' >= ', ' > '),
    (r' == ', ' != '), (r' != ', ' == '), (r' && ', ' || '), (r' \|\| ', ' && '),
    (r'\breturn true\b', 'return false'), (r'\breturn false\b', 'return true'),
    (r' \+ 1\b', ' + 2'), (r' - 1\b', ' - 0'), (r'^(\s*)continue$', r'\1break'),
    (r'\bif !', 'if '), (r'\+\+$', '--'),
]
SKIP = re.compile(r'logger\.|\.Debug\(|\.Info\(|\.Warn\(|\.Error\(|fmt\.Errorf|errors\.New|^\s*//|^\s*\*|panic\(|err [!=]= nil')

def mutants():
    out = []
    for f in files:
        p = os.path.join('/repo', f)
        if not os.path.exists(p):
            continue
        lines = open(p).read().split('\n')
        for i, ln in enumerate(lines):
            code = ln.split('//')[0]
            if SKIP.search(ln) or not code.strip():
                continue
            for pat, rep in OPS:
                for m in re.finditer(pat, code):
                    out.append((f, i, pat, ln, code[:m.start()] + m.expand(rep) + code[m.end():]))
    return out

def sh(cmd, cwd=None, timeout=1500):
    try:
        r = subprocess.run(cmd, shell=True, cwd=cwd, env=ENV, capture_output=True, text=True, timeout=timeout)
        return r.returncode, r.stdout + r.stderr
    except subprocess.TimeoutExpired:
        return 124, 'timeout'

ms = mutants()
random.Random(SEED * 1000 + int(ID[1:])).shuffle(ms)
wt = f'/tmp/mutwt-{ID}-{os.getpid()}'
sh(f'git -C /repo worktree add --detach {wt} HEAD')
done = 0
try:
    for f, i, pat, old, new in ms:
        if done >= N:
            break
        p = os.path.join(wt, f)
        lines = open(p).read().split('\n')
        lines[i] = new
        open(p, 'w').write('\n'.join(lines))
        tag = f'{ID} {f}:{i+1} [{old.strip()[:70]}] -> [{new.strip()[:70]}]'
        rc, out = sh('go build ./...', cwd=wt)
        if rc != 0:
            sh('git checkout -q .', cwd=wt)
            continue  # does not compile: not a mutant
        done += 1
        rc, out = sh(f'VERIF_REPO={wt} bin/check {ID} quick', cwd=XV)
        if rc != 0:
            sig = [l for l in out.split('\n') if l.startswith('  replay') or 'failed obligation' in l or 'VIOLATION' in l]
            print(tag, '| caught', (sig[-1] if sig else '?')[:150].strip(), flush=True)
        else:
            pkg = './' + os.path.dirname(f) + '/...'
            rc1, _ = sh(f'go test -mod=mod -vet=off -count=1 {pkg}', cwd=wt)
            if rc1 != 0:
                print(tag, '| killed-by-suite (package)', flush=True)
            else:
                rc2, _ = sh('go test -mod=mod -vet=off -count=1 ./...', cwd=wt)
                print(tag, '| killed-by-suite' if rc2 != 0 else '| SURVIVOR', flush=True)
        sh('git checkout -q .', cwd=wt)
finally:
    sh(f'git -C /repo worktree remove --force {wt}')
