#!/bin/bash
# tools/try_benign.sh <ID> [tier] — run the property's check against each harmless change in /tmp/benign-<ID>/{a,b,c}.diff (scratch worktrees). A check that alarms here is too tight.
set -u
id=$1; tier=${2:-quick}
for x in a b c; do
  p=${BENIGN_DIR:-/verif/benign}/$id/$x.diff; [ -f "$p" ] || continue
  wt=/tmp/wt-benign-$id-$x-$$
  git -C /repo worktree add --detach "$wt" HEAD >/dev/null 2>&1 || exit 3
  if ! git -C "$wt" apply "$p" 2>/dev/null && ! git -C "$wt" apply --3way "$p" >/dev/null 2>&1; then echo "$id/$x PATCH DOES NOT APPLY"; git -C /repo worktree remove --force "$wt"; continue; fi
  out=$(cd /verif && VERIF_REPO="$wt" bin/check "$id" "$tier" 2>&1); rc=$?
  echo "$id/$x rc=$rc $(echo "$out" | grep '^\[check\] C' | tail -1)"
  if [ $rc -ne 0 ]; then
    echo "$out" | grep "VIOLATION\|failed obligation" | head -5
    for f in /verif/replays/$id-$tier-*.json; do [ -f "$f" ] && python3 - "$f" <<'P'
import json,sys
d=json.load(open(sys.argv[1]))
print("    replay", sys.argv[1].split('/')[-1], "|", d.get('signature', 'no-failing-input'), "|", (d.get('what') or str(d.get('theorems_that_no_longer_check'))+str([(x.get('what'),str(x.get('detail') or x.get('verdict'))[:300]) for x in d.get('correspondence_that_no_longer_checks',[])][:2]))[:700])
P
    done
  fi
  git -C /repo worktree remove --force "$wt"
done
