#!/bin/bash
# tools/apply_fix.sh <patch> <commit message file>  — apply a fix to /repo, run the whole suite unedited, commit as one "fix:" commit
set -u
patch=$(readlink -f "$1"); msg=$(readlink -f "$2")
cd /repo || exit 3
if [ -n "$(git status --porcelain)" ]; then echo "REPO DIRTY"; git status --short; exit 3; fi
git apply --check "$patch" || { echo "PATCH DOES NOT APPLY"; exit 3; }
git apply "$patch"
# a fix must not edit existing tests
if git status --porcelain | grep -q '_test.go'; then echo "PATCH EDITS TESTS:"; git status --short | grep _test.go; git checkout -- . ; git clean -fdq; exit 4; fi
export GOFLAGS=-mod=mod GOPROXY=off
go build ./... || { echo BUILD FAILED; git checkout -- .; git clean -fdq; exit 5; }
if ! go test -mod=mod -vet=off -count=1 ./... > /tmp/fix-suite.log 2>&1; then
  # one retry for load-sensitive tests
  if ! go test -mod=mod -vet=off -count=1 ./... > /tmp/fix-suite.log 2>&1; then
    echo "SUITE FAILED"; grep -a "^FAIL\|^--- FAIL" /tmp/fix-suite.log | head; git checkout -- .; git clean -fdq; exit 6
  fi
fi
git add -A && git commit -q -F "$msg" && git log --oneline | head -1
