#!/bin/bash
# tools/mk_benign_prompt.sh <ID>  — create the scratch worktree /tmp/benign-wt-<ID> and print the prompt for a fresh sub-agent
set -eu
id=$1; wt=/tmp/benign-wt-$id
git -C /repo worktree remove --force $wt >/dev/null 2>&1 || true
git -C /repo worktree add --detach $wt HEAD >/dev/null 2>&1
mkdir -p /tmp/benign-$id
python3 - "$id" "$wt" <<'P'
import json,sys
id,wt=sys.argv[1],sys.argv[2]
prop=[l for l in open('/verif/properties.jsonl') if json.loads(l)['id']==id][0].strip()
t=open('/verif/tools/benign-prompt-template.txt').read()
print(t.replace('__WT__',wt).replace('__ID__',id).replace('__PROP__',prop))
P
