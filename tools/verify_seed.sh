#!/bin/bash
# tools/verify_seed.sh <seedout dir (contains patch.diff, demo/, meta.json)>  — independent confirmation of a seeded change
set -u
d=$(readlink -f "$1"); wt=/tmp/wt-vs-$$
export GOFLAGS=-mod=mod GOPROXY=off
git -C /repo worktree add --detach "$wt" HEAD >/dev/null 2>&1 || exit 3
cd "$wt"
res=""
git apply "$d/patch.diff" && res="$res apply=ok" || res="$res apply=FAIL"
go build ./... >/dev/null 2>&1 && res="$res build=ok" || res="$res build=FAIL"
if go test -mod=mod -vet=off -count=1 ./... > /tmp/vs-suite-$$.log 2>&1; then res="$res suite=pass"; else
  # timing tests (pkg/eventbus stress, sherpa read timers) fail on a loaded machine with or without a change: the packages
  # that failed are run again on their own, twice at most, before the suite counts as failing
  pk=$(grep '^FAIL[[:space:]]' /tmp/vs-suite-$$.log | awk '{print $2}' | sort -u | tr '\n' ' ')
  ok=no
  for try in 1 2; do if [ -n "$pk" ] && go test -mod=mod -vet=off -count=1 $pk > /tmp/vs-suite2-$$.log 2>&1; then ok=yes; break; fi; done
  [ $ok = yes ] && res="$res suite=pass(after-rerun-of:${pk// /,})" || res="$res suite=FAIL($pk)"
fi
python3 - "$d" "$wt" <<'P'
import json,sys,shutil,os
d,wt=sys.argv[1],sys.argv[2]
m=json.load(open(d+'/meta.json'))
for f,rel in m['demo_paths'].items():
    dst=os.path.join(wt,rel); os.makedirs(os.path.dirname(dst),exist_ok=True); shutil.copy(os.path.join(d,'demo',f),dst)
open('/tmp/vs-cmd-%s'%os.getppid(),'w').write(m['demo_cmd'])
P
cmd=$(cat /tmp/vs-cmd-$$)
cmd=${cmd//\/tmp\/seed-C[0-9][0-9]/$wt}
cmd=${cmd//\/tmp\/seed2-C[0-9][0-9]/$wt}
( eval "$cmd" ) > /tmp/vs-demo1-$$.log 2>&1 && res="$res demo_with_change=PASS(unexpected)" || res="$res demo_with_change=fails"
git apply -R "$d/patch.diff"
( eval "$cmd" ) > /tmp/vs-demo2-$$.log 2>&1 && res="$res demo_without=passes" || res="$res demo_without=FAILS(unexpected)"
cd /; git -C /repo worktree remove --force "$wt"
echo "$d:$res"
rm -f /tmp/vs-*-$$*
