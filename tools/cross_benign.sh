#!/bin/bash
# tools/cross_benign.sh <patch> <label> <ID>...  — run several properties' quick checks against ONE harmless change (one scratch worktree, checks run 3 at a time)
set -u
p=$(readlink -f "$1"); label=$2; shift 2
wt=/tmp/wt-cross-$$
git -C /repo worktree add --detach "$wt" HEAD >/dev/null 2>&1 || exit 3
if ! git -C "$wt" apply "$p" 2>/dev/null && ! git -C "$wt" apply --3way "$p" >/dev/null 2>&1; then echo "$label PATCH DOES NOT APPLY"; git -C /repo worktree remove --force "$wt"; exit 3; fi
run1() { id=$1; out=$(cd ${X_VERIF:-/verif} && VERIF_REPO="$wt" bin/check "$id" quick 2>&1); rc=$?; echo "$label x $id rc=$rc $(echo "$out" | grep '^\[check\] C' | tail -1 | sed 's/^\[check\] //')"; if [ $rc -ne 0 ]; then echo "$out" | grep "VIOLATION\|failed obligation" | head -4 | sed 's/^/      /'; mkdir -p /tmp/cross-replays/$label; cp ${X_VERIF:-/verif}/replays/$id-quick-*.json /tmp/cross-replays/$label/ 2>/dev/null; fi; }
export -f run1; export wt label
printf "%s\n" "$@" | xargs -P 3 -I{} bash -c 'run1 {}'
git -C /repo worktree remove --force "$wt"
