#!/usr/bin/env python3
"""tools/keep_seed.py <seedout-dir> <name> <check result text>  — file a confirmed seeded change under /verif/seeded/<name>/"""
import json, os, shutil, sys
src, name, result = sys.argv[1], sys.argv[2], sys.argv[3]
dst = os.path.join('/verif/seeded', name)
shutil.rmtree(dst, ignore_errors=True)
os.makedirs(dst)
shutil.copy(os.path.join(src, 'patch.diff'), dst)
shutil.copytree(os.path.join(src, 'demo'), os.path.join(dst, 'demo'))
m = json.load(open(os.path.join(src, 'meta.json')))
m['confirmed_by_integrator'] = "tools/verify_seed.sh: patch applies to /repo HEAD, go build ./... ok, full suite passes with the change, demonstration fails with the change and passes without it"
m['check_result'] = result
m['how_to_rerun'] = "tools/try_seed.sh seeded/%s/patch.diff %s" % (name, m['property'])
json.dump(m, open(os.path.join(dst, 'meta.json'), 'w'), indent=1)
print("kept", dst)
