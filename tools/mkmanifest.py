#!/usr/bin/env python3
"""Regenerate MANIFEST.json from checks/*.json (+ checks/not_applicable.json). Validates against the schema."""
import glob, json, os, sys
V = os.path.dirname(os.path.dirname(os.path.abspath(__file__)))
base = json.load(open("/root/.vp/BASELINE.json"))
props = [json.loads(l)["id"] for l in open(os.path.join(V, "properties.jsonl"))]
cfgs = {c["id"]: c for c in (json.load(open(p)) for p in sorted(glob.glob(os.path.join(V, "checks", "C*.json")))) if c.get("ready")}
na_path = os.path.join(V, "checks", "not_applicable.json")
na = json.load(open(na_path)) if os.path.exists(na_path) else {}
checks = []
for pid in props:
    if pid not in cfgs:
        continue
    c = cfgs[pid]
    checks.append({
        "property_id": pid,
        "quick_cmd": "bin/check %s quick" % pid,
        "thorough_cmd": "bin/check %s thorough" % pid,
        "evidence_file": "/verif/evidence/%s.json" % pid,
        "replay_cmd_template": "bin/check %s quick --replay {path}" % pid,
        "engine": "lean-proof",
        "level_claimed": {"category": "proof", "text": c["level_text"], "design_ref": c.get("design_ref", "DESIGN.md §3 " + pid)},
        "level_note": c["level_note"],
        "technique": c.get("technique", "Lean 4 theorems about an executable model + regenerated tables + differential correspondence with the Go implementation"),
    })
m = {
    "version": 1,
    "setup_cmd": "bin/setup",
    "hooks": {"guard": "verif",
              "enable": "cd /repo && GOFLAGS=-mod=mod GOPROXY=off go build -tags verif -overlay /verif/build/overlay.json ./internal/zz_verif/<harness>  (harness sources live in /verif/harness/repo and are overlaid; /repo carries no hook commits)",
              "baseline_off_cmd": base["cmd"], "source_commits": [], "add_only": True},
    "engines": [{"name": "lean-proof", "path": "/verif/lean", "serves_properties": [c["property_id"] for c in checks],
                 "kind_free_text": "Lean 4 proof of property theorems about executable models (Olla/Model, Olla/Spec, Olla/Props); models tied to /repo on every run by regenerated tables (Olla/Gen, produced by gen_* Go programs compiled from the working tree) and by a differential correspondence check (Go harness via go build -overlay vs the compiled Lean driver olla_model)"}],
    "checks": checks,
    "notes": "bin/check <ID> <tier>; VERIF_SEED seeds every generator; known findings in known_findings.txt; see DESIGN.md",
    "not_applicable": [{"property_id": p, "reason": na.get(p, "not yet claimed: model, theorems and correspondence for this property are not built yet (see DESIGN.md §3 for the plan)")} for p in props if p not in cfgs],
}
json.dump(m, open(os.path.join(V, "MANIFEST.json"), "w"), indent=1)
try:
    import jsonschema
    jsonschema.validate(m, json.load(open("/root/.vp/MANIFEST.schema.json")))
    print("MANIFEST.json valid: %d checks, %d not_applicable" % (len(checks), len(m["not_applicable"])))
except ImportError:
    print("MANIFEST.json written (jsonschema not importable here): %d checks" % len(checks))
